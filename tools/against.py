#!/venv/bin/python
"""Run checks against one change directory (patch.diff) without the full vetting:

    tools/against.py <change-dir> C01 [C02 ...] [--seed N] [--tier quick]

The patch is applied in a scratch worktree of /repo under /tmp (removed afterwards)."""
import os
import shutil
import subprocess
import sys
import tempfile

ROOT = os.path.dirname(os.path.dirname(os.path.abspath(__file__)))


def sh(cmd, **kw):
    return subprocess.run(cmd, capture_output=True, text=True, **kw)


def main(argv):
    d = os.path.abspath(argv[0])
    checks, seed, tier = [], None, "quick"
    i = 1
    while i < len(argv):
        if argv[i] == "--seed":
            seed = argv[i + 1]; i += 2; continue
        if argv[i] == "--tier":
            tier = argv[i + 1]; i += 2; continue
        checks.append(argv[i]); i += 1
    wt = tempfile.mkdtemp(prefix="against-", dir="/tmp")
    os.rmdir(wt)
    try:
        sh(["git", "-C", "/repo", "worktree", "add", "-q", "--detach", wt, "HEAD"])
        r = sh(["git", "-C", wt, "apply", os.path.join(d, "patch.diff")])
        if r.returncode:
            print("patch does not apply:", r.stderr[-300:])
            return 2
        env = dict(os.environ, CATII_SRC=os.path.join(wt, "src/catii"))
        if seed is not None:
            env["VERIF_SEED"] = seed
        rc = 0
        for c in checks:
            r = sh([os.path.join(ROOT, "check"), c, "--tier", tier, "--no-evidence"], env=env, timeout=7200)
            keys = sorted({l.strip()[4:] for l in r.stdout.splitlines() if l.strip().startswith("key=")})
            print(os.path.basename(os.path.dirname(d)) + "/" + os.path.basename(d), c, "exit=%d" % r.returncode, keys[:6])
            if r.returncode not in (0, 1):
                print(r.stdout[-1500:], r.stderr[-500:])
            rc = rc or (0 if r.returncode == 1 else 1)
        return rc
    finally:
        sh(["git", "-C", "/repo", "worktree", "remove", "--force", wt])
        shutil.rmtree(wt, ignore_errors=True)


if __name__ == "__main__":
    sys.exit(main(sys.argv[1:]))
