"""Monitors installed from the harness (no hooks in the repository).

patch_everywhere   replace every binding of an object in catii.* by a wrapper, count calls
LineProbe          sys.monitoring LINE events on chosen code objects, each executed
                   line classified by its *source text* (robust to renumbering)
snapshot/compare   byte-for-byte snapshots of arbitrarily nested arguments
"""
import linecache
import sys
import types

import numpy


# --------------------------------------------------------------------------- #
class Patch:
    def __init__(self):
        self.sites = []
        self.calls = 0

    def undo(self):
        for owner, name, orig in reversed(self.sites):
            setattr(owner, name, orig)
        self.sites = []


def catii_modules():
    return [m for n, m in list(sys.modules.items())
            if (n == "catii" or n.startswith("catii.")) and m is not None]


def patch_everywhere(orig, make_wrapper):
    """Replace every module attribute (and class attribute of classes defined in
    catii modules) that *is* `orig` by make_wrapper(orig, patch).  Returns the
    Patch, whose .calls the wrapper is expected to increment."""
    p = Patch()
    wrapped = make_wrapper(orig, p)
    for mod in catii_modules():
        for name, val in list(vars(mod).items()):
            if val is orig:
                p.sites.append((mod, name, val))
                setattr(mod, name, wrapped)
            elif isinstance(val, type) and getattr(val, "__module__", "").startswith("catii"):
                for an, av in list(vars(val).items()):
                    inner = av.__func__ if isinstance(av, (staticmethod, classmethod)) else av
                    if inner is orig:
                        p.sites.append((val, an, av))
                        setattr(val, an, staticmethod(wrapped) if isinstance(av, staticmethod) else wrapped)
    return p


# --------------------------------------------------------------------------- #
def code_objects_of(obj):
    """All code objects (incl. nested closures/comprehensions) of a function,
    class or module restricted to definitions that belong to it."""
    out = []

    def rec(co):
        out.append(co)
        for c in co.co_consts:
            if isinstance(c, types.CodeType):
                rec(c)

    if isinstance(obj, types.CodeType):
        rec(obj)
    elif isinstance(obj, (types.FunctionType, types.MethodType)):
        rec(getattr(obj, "__func__", obj).__code__)
    elif isinstance(obj, (classmethod, staticmethod)):
        rec(obj.__func__.__code__)
    elif isinstance(obj, type):
        for a in vars(obj).values():
            f = getattr(a, "__func__", a)
            if isinstance(f, types.FunctionType):
                rec(f.__code__)
            elif isinstance(a, property) and a.fget is not None:
                rec(a.fget.__code__)
    elif isinstance(obj, types.ModuleType):
        for v in vars(obj).values():
            if isinstance(v, types.FunctionType) and v.__module__ == obj.__name__:
                rec(v.__code__)
            elif isinstance(v, type) and v.__module__ == obj.__name__:
                out.extend(code_objects_of(v))
    return out


class LineProbe:
    """Counts executed source lines of the given code objects by classifier.

    classify(code, lineno, text) -> label or None.  Uses sys.monitoring with
    DISABLE after the first hit of each line *per arm()* call, so the cost is
    one event per distinct line per case."""

    TOOL = 4

    def __init__(self, targets, classify):
        self.codes = []
        for t in targets:
            self.codes.extend(code_objects_of(t))
        self.classify = classify
        self.hits = set()
        self.installed = False

    def install(self):
        mon = sys.monitoring
        mon.use_tool_id(self.TOOL, "vf-lineprobe")
        mon.register_callback(self.TOOL, mon.events.LINE, self._on_line)
        for co in self.codes:
            mon.set_local_events(self.TOOL, co, mon.events.LINE)
        self.installed = True

    def uninstall(self):
        mon = sys.monitoring
        for co in self.codes:
            mon.set_local_events(self.TOOL, co, 0)
        mon.register_callback(self.TOOL, mon.events.LINE, None)
        mon.free_tool_id(self.TOOL)
        self.installed = False

    def _on_line(self, code, lineno):
        text = linecache.getline(code.co_filename, lineno)
        label = self.classify(code, lineno, text)
        if label is not None:
            self.hits.add(label)
        return sys.monitoring.DISABLE

    def arm(self):
        """Start observing a new case."""
        self.hits = set()
        sys.monitoring.restart_events()

    def labels(self):
        return set(self.hits)


# --------------------------------------------------------------------------- #
def snapshot(obj, _depth=0):
    """Deep, byte-exact snapshot of nested arguments (arrays, indexes, dicts,
    lists, tuples, scalars)."""
    if isinstance(obj, numpy.ndarray):
        # (bytes, and what the caller can still do with its array afterwards: a cleared writeable flag is a change too)
        return ("nd", obj.dtype.str, obj.shape, obj.tobytes() if obj.dtype != object else repr(obj.tolist()),
                bool(obj.flags.writeable))
    if isinstance(obj, dict):
        items = tuple((snapshot(k, _depth + 1), snapshot(v, _depth + 1)) for k, v in dict.items(obj))
        attrs = ()
        if hasattr(obj, "common") and hasattr(obj, "shape"):
            attrs = ("iindex", repr(obj.common), type(obj.common).__name__, tuple(obj.shape))
        return ("dict", type(obj).__name__, attrs, items)
    if isinstance(obj, (list, tuple)):
        return (type(obj).__name__, tuple(snapshot(x, _depth + 1) for x in obj))
    if isinstance(obj, (set, frozenset)):
        return ("set", tuple(sorted(repr(x) for x in obj)))
    if isinstance(obj, float) and obj != obj:
        return ("nan",)
    return ("v", type(obj).__name__, repr(obj))


def snapshot_diff(a, b, path="arg"):
    """Return a short description of the first difference, or None."""
    if a == b:
        return None
    if a[0] != b[0]:
        return "%s: kind %s -> %s" % (path, a[0], b[0])
    if a[0] == "nd":
        if a[1] != b[1] or a[2] != b[2]:
            return "%s: dtype/shape %s%s -> %s%s" % (path, a[1], a[2], b[1], b[2])
        if len(a) > 4 and len(b) > 4 and a[4] != b[4] and a[3] == b[3]:
            return "%s: the array's writeable flag changed %s -> %s (same bytes)" % (path, a[4], b[4])
        x = numpy.frombuffer(a[3], dtype="u1") if isinstance(a[3], bytes) else None
        y = numpy.frombuffer(b[3], dtype="u1") if isinstance(b[3], bytes) else None
        if x is not None and y is not None and len(x) == len(y):
            pos = int(numpy.nonzero(x != y)[0][0]) // max(1, numpy.dtype(a[1]).itemsize)
            return "%s: array bytes differ at flat element %d" % (path, pos)
        return "%s: array content differs" % path
    if a[0] == "dict":
        if a[2] != b[2]:
            return "%s: index attributes %r -> %r" % (path, a[2], b[2])
        if len(a[3]) != len(b[3]):
            return "%s: dict size %d -> %d" % (path, len(a[3]), len(b[3]))
        for (ka, va), (kb, vb) in zip(a[3], b[3]):
            if ka != kb:
                return "%s: dict keys/order changed %r -> %r" % (path, ka[-1], kb[-1])
            d = snapshot_diff(va, vb, "%s[%s]" % (path, ka[-1]))
            if d:
                return d
    if a[0] in ("list", "tuple"):
        if len(a[1]) != len(b[1]):
            return "%s: length %d -> %d" % (path, len(a[1]), len(b[1]))
        for i, (x, y) in enumerate(zip(a[1], b[1])):
            d = snapshot_diff(x, y, "%s[%d]" % (path, i))
            if d:
                return d
    return "%s: %r -> %r" % (path, a[:3], b[:3])
