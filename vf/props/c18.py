"""C18 - the array-cube-only statistics equal the per-cell textbook statistic.

Oracle: per cell, the textbook statistic over the rows of that cell (hand-written
two-pass formulas / numpy.quantile), and the missing rule of C04 with the
additions the property names."""
import math

import numpy

from .. import aggr, gen, oracles

NaN = float("nan")

META = {
    "level": "exploration",
    "rule": ("xcube over 0-3 array dimensions (extents 1-5, occasionally one extra axis), N in {1,2,3,6,12,40} so that "
             "cells with 0, 1, 2 and many rows occur, facts with 1-3 columns and any missing pattern, statistic in "
             "{stddev, quantile, min, max, corrcoef, covariance} with the weight forms the property quantifies over; every "
             "cell compared with the textbook statistic (values within 1e-9 of the data spread plus 1e-12 of its magnitude - facts "
             "include large-offset/small-spread data -, missing cells exactly), "
             "NaN and (values, validity) formats compared. Non-trivial: a cell with >=2 valid rows whose statistic is "
             "non-zero, or a cell missing for a reason other than having no rows; distinct by content hash"),
    "require": {t: ["agg:stddev", "agg:quantile", "agg:min", "agg:max", "agg:corrcoef", "agg:covariance",
                    "cells:one_valid_row", "cells:two_valid_rows", "cells:many_rows", "cells:missing_by_value",
                    "class:weighted_stddev", "class:weighted_quantile", "class:weighted_covariance", "class:datetime",
                    "class:cols", "class:ndims=0", "class:propagate", "class:ignore", "wq:rescale_checked",
                    "class:large_offset_small_spread", "metamorphic:zero_dim_vs_one_cell", "class:zero_weights_in_metamorphic_check",
                    "class:one_dimension_129+_categories", "class:facts_on_a_very_small_or_large_scale", "class:integer_facts_beyond_2^53"]
                for t in ("quick", "thorough")},
    "assumptions": [
        "correlation entries with a zero-variance column or < 2 rows, and covariance entries of cells with < 2 (complete) "
        "rows, are mathematically undefined and are not compared",
        "weighted quantile: only the missing rule, invariance under rescaling all weights by a power of two, and "
        "min <= result <= max of the cell's valid values are demanded; weights are non-negative (one input in four keeps rows of weight 0; a cell whose valid rows all weigh 0 has no reading and is not compared)",
        "scalar weights for stddev/covariance and weights for corrcoef are outside the quantifier and not generated"],
}
META["rule"] += '; round 7: weighted covariance with rows of weight exactly 0, preferably rows with a missing fact value (missing rule judged over all rows of the cell; cells with fewer than two rows of positive weight are undefined, cells whose weights sum to zero outside the quantifier)'
for _t in META["require"]:
    META["require"][_t] = list(META["require"][_t]) + ['class:covariance_with_rows_of_weight_zero']


def shards(tier):
    if tier == "quick":
        return [{"label": "inputs%d" % i, "n": 1300} for i in range(14)]
    return [{"label": "inputs%d" % i, "n": 40000} for i in range(16)]


def cases(ctx):
    rng = ctx.rng
    for i in range(ctx.shard["n"]):
        if i % 33 == 17:
            # more than 1024 cells, or ONE dimension of 129..255 / more than 32768 categories (the
            # narrowest coordinate types filled to more than half)
            if rng.random() < 0.5:
                mc = aggr.many_cells_case(rng)
                c = {k: mc[k] for k in ("dense", "commons", "shape", "extents")}
            else:
                e = int(gen.pick(rng, [129, 200, 255, 256, 40000]))
                nn = int(gen.pick(rng, [60, 300]))
                a = rng.integers(0, e, size=nn).astype(numpy.int64)
                a[: nn // 3] = rng.integers(max(0, e - 60), e, size=nn // 3)      # many rows in the high cells
                c = {"dense": [a], "commons": [0], "shape": (e,), "extents": [e]}
                ctx.count("class:one_dimension_129+_categories")
        elif i % 33 == 5:
            # cells with 256+ rows (per-cell counters on a narrow-integer boundary)
            c = gen.cube_case(rng, min_dims=0, max_dims=1, max_axes=1, max_extent=2,
                              n=gen.pick(rng, [256, 257, 300, 513]), allow_outside_common=False, explicit_shape=True)
        else:
            c = gen.cube_case(rng, min_dims=0, max_dims=3, max_axes=2, multi_axis_prob=0.12, max_extra=3,
                              n=gen.pick(rng, [1, 2, 3, 6, 12, 40]), allow_outside_common=False, explicit_shape=True)
        c["n"] = c["dense"][0].shape[0] if c["dense"] else gen.pick(rng, [1, 2, 3, 6, 12])
        c["agg"] = gen.pick(rng, aggr.XONLY)
        c.update(aggr.xonly_inputs(rng, c["n"], c["agg"]))
        yield c


# ---- textbook statistics over one cell -------------------------------------- #
def stat_stddev(x, xv, w, wv, ignore):
    n = len(x)
    valid = xv if w is None else xv & wv
    nv = int(valid.sum())
    missing = n == 0 or (nv < n and not ignore) or nv < 2
    if missing:
        return NaN, True
    xs = x[valid].astype(float)
    if w is None:
        mu = xs.sum() / nv
        return math.sqrt(((xs - mu) ** 2).sum() / (nv - 1)), False
    ws = w[valid]
    mu = (ws * xs).sum() / ws.sum()
    var = (ws * (xs - mu) ** 2).sum() / ws.sum()
    return math.sqrt(var * nv / (nv - 1)), False


def stat_quantile(x, xv, w, wv, ignore, p):
    n = len(x)
    valid = xv if w is None else xv & wv
    nv = int(valid.sum())
    missing = n == 0 or nv == 0 or (nv < n and not ignore)
    if missing:
        return NaN, True, None
    xs = x[valid].astype(float)
    if w is None:
        return float(numpy.quantile(xs, p)), False, None
    return None, False, (float(xs.min()), float(xs.max()))


def stat_minmax(x, xv, ignore, op):
    n = len(x)
    nv = int(xv.sum())
    missing = n == 0 or nv == 0 or (nv < n and not ignore)
    if missing:
        return None, True
    xs = x[xv]
    return (xs.max() if op == "max" else xs.min()), False


def weighted_cov(a, b, w):
    if w is None:
        n = len(a)
        return ((a - a.mean()) * (b - b.mean())).sum() / (n - 1)
    v1 = w.sum()
    v2 = (w * w).sum()
    ma, mb = (w * a).sum() / v1, (w * b).sum() / v1
    return (w * (a - ma) * (b - mb)).sum() / (v1 - v2 / v1)


def judge(ctx, case):
    import catii

    dense = [numpy.asarray(d) for d in case["dense"]]
    shape = tuple(case["shape"]) if dense else ()
    n = case["n"]
    agg = case["agg"]
    ig = case["ignore_missing"]
    f = case["fact"]
    is_dt = f["values"].dtype.kind == "M"
    if is_dt:
        x = f["values"]
        xv = ~numpy.isnat(x) if f["validity"] is None else f["validity"]
    else:
        x, xv = gen.fact_parts(f)
    if agg == "covariance" and case["weights"]["kind"] in ("array", "tuple") and n >= 4 and n % 3 == 0 \
            and not case["weights"].get("zero_rows_added"):
        # some rows weigh exactly 0 - preferably rows with a missing fact value: a valid row of weight zero carries no
        # mass, but it is a row of its cell, and its missing values count under the missing rule like any other row's
        zr = numpy.random.default_rng(n * 131 + len(dense))
        incomplete = ~(xv.all(axis=1) if xv.ndim == 2 else xv)
        pickz = (incomplete & (zr.random(n) < 0.6)) | (zr.random(n) < 0.08)
        wz = dict(case["weights"])
        vals = numpy.array(wz["values"], dtype=float, copy=True)
        vals[pickz & numpy.isfinite(vals)] = 0.0
        wz["values"] = vals
        wz["zero_rows_added"] = True
        case["weights"] = wz
        ctx.count("class:covariance_with_rows_of_weight_zero")
    w, wv = gen.weight_parts(case["weights"], n)
    ctx.count("agg:" + agg)
    ctx.count("class:ndims=%d" % len(dense))
    ctx.count("class:ignore" if ig else "class:propagate")
    if w is not None:
        ctx.count("class:weighted_" + agg)
    if is_dt:
        ctx.count("class:datetime")
    if x.ndim == 2:
        ctx.count("class:cols")
    cube = catii.xcube([a.copy() for a in dense], interacting_shape=shape) if dense else catii.xcube([])
    rma = aggr.nat_for(case)
    try:
        res = numpy.asarray(aggr.call_x(cube, agg, case, rma))
    except ZeroDivisionError:
        if case["weights"].get("zero_rows_added"):
            # some cell's weights sum to zero: not a covariance (see assumptions) - the case is outside the quantifier
            ctx.count("skipped:a_cell_with_weight_sum_zero(outside the quantifier)")
            return
        raise
    sent = (numpy.datetime64("1999-01-01", "s") if is_dt else -12345.0)
    res2 = aggr.call_x(cube, agg, case, (sent, False))
    sshape = oracles.scaffold_shape(dense)
    K = x.shape[1:] if x.ndim == 2 else ()
    tail = K + K if agg in ("corrcoef", "covariance") else K
    full = sshape + shape + tail
    r = oracles.conform(res, full)
    feat = "%s:%s,w=%s,%s" % (agg, "cols" if x.ndim == 2 else "1col", case["weights"]["kind"], "ignore" if ig else "propagate")
    if r is None:
        ctx.violation("shape:" + feat, "result shape %r, expected %r" % (res.shape, full), case)
        return
    if not (isinstance(res2, tuple) and len(res2) == 2):
        ctx.violation("format:" + feat, "(values, validity) format not returned", case)
        return
    v2 = oracles.conform(numpy.asarray(res2[0]), full)
    ok2 = oracles.conform(numpy.asarray(res2[1]), full)
    lib_missing = numpy.isnat(r) if is_dt else numpy.isnan(r.astype(float))
    # facts given on another scale (a power of two, exact): magnitudes are measured in the original units and the
    # tolerances scale with the statistic (linearly; quadratically for a covariance)
    sc = float(f.get("scale", 1.0))
    if sc != 1.0:
        ctx.count("class:facts_on_a_very_small_or_large_scale")
    if is_dt or not x.size or not xv.any():
        mag = spread = 1.0
    else:
        xf = numpy.nan_to_num(x.astype(float), posinf=0, neginf=0)[xv] / sc
        mag = max(1.0, float(numpy.abs(xf).max()))
        spread = max(1.0, float(xf.max() - xf.min()))
    # two-pass formulas: the error scales with the spread of the data, plus a few ulps of its magnitude
    if agg == "covariance":
        tol = 1e-9 * spread * spread + 1e-11 * mag * spread
    elif agg == "stddev":
        tol = 1e-9 * spread + 1e-12 * mag
    else:
        tol = 1e-9 * mag
    tol *= sc * sc if agg == "covariance" else (1.0 if agg == "corrcoef" else sc)
    if f.get("offset"):
        ctx.count("class:large_offset_small_spread")
    nontrivial = False
    # NaN format vs (values, validity) format
    if ok2 is None or ok2.dtype != bool or not numpy.array_equal(~ok2, lib_missing):
        ctx.violation("formats-missing-differ:" + feat, "NaN format and (values, validity) format mark different cells missing", case)
        return
    good = ~lib_missing
    if is_dt:
        same = numpy.array_equal(r[good].astype("int64"), v2[good].astype("int64"))
    else:
        same = bool(numpy.all(r[good].astype(float) == v2[good].astype(float)))
    if not same:
        ctx.violation("formats-values-differ:" + feat, "NaN format and (values, validity) format give different values", case)
        return

    int_fact = agg in ("min", "max") and x.dtype.kind in "iu"
    if f.get("huge_int"):
        ctx.count("class:integer_facts_beyond_2^53")
    for pos in oracles.scaffold_positions(dense):
        spos = tuple(i for p in pos for i in p)
        cols = oracles.columns_at(dense, pos)
        cells = oracles.rows_by_cell(cols, shape, n)
        for cell in (numpy.ndindex(*shape) if dense else [()]):
            rows = cells.get(tuple(cell), numpy.zeros(0, dtype=int))
            cw = None if w is None else w[rows]
            cwv = None if w is None else wv[rows]
            at = spos + tuple(cell)
            if agg in ("stddev", "quantile", "min", "max"):
                for k in (range(K[0]) if K else [None]):
                    cx = x[rows] if k is None else x[rows, k]
                    cxv = xv[rows] if k is None else xv[rows, k]
                    idx = at if k is None else at + (k,)
                    nv = int((cxv if cw is None else cxv & cwv).sum())
                    ctx.count("cells:no_rows" if len(rows) == 0 else ("cells:one_valid_row" if nv == 1 else
                              ("cells:two_valid_rows" if nv == 2 else ("cells:many_rows" if nv > 2 else "cells:no_valid_rows"))))
                    band = None
                    if agg == "stddev":
                        ev, em = stat_stddev(cx, cxv, cw, cwv, ig)
                    elif agg == "quantile":
                        ev, em, band = stat_quantile(cx, cxv, cw, cwv, ig, case["p"])
                        if cw is not None and not em:
                            vw = cw[cxv & cwv]
                            if len(vw) and not (numpy.nan_to_num(vw) > 0).any():
                                # every valid row of the cell weighs nothing: the weighted quantile has no reading
                                ctx.count("cells:all_weights_zero(not compared)")
                                continue
                            if (numpy.nan_to_num(vw) == 0).any():
                                ctx.count("cells:weighted_quantile_with_a_zero_weight_row")
                    else:
                        ev, em = stat_minmax(cx, cxv, ig, agg)
                    if em and len(rows):
                        ctx.count("cells:missing_by_value")
                        nontrivial = True
                    lm = bool(lib_missing[idx])
                    if lm != em:
                        ctx.violation("missing:%s:%s" % ("spurious" if lm else "not-reported", feat),
                                      "cell %r (%d rows, %d valid): library %s, textbook rule %s; library value %r"
                                      % (idx, len(rows), nv, "missing" if lm else "present", "missing" if em else "present", r[idx]), case)
                        return
                    if em:
                        continue
                    if band is not None:
                        lo, hi = band
                        if not (lo - tol <= float(r[idx]) <= hi + tol):
                            ctx.violation("weighted-quantile-outside-range:" + feat,
                                          "cell %r: weighted quantile %r outside [min, max] = [%r, %r] of the cell's valid values"
                                          % (idx, r[idx], lo, hi), case)
                            return
                        continue
                    if is_dt:
                        okv = r[idx].astype("int64") == numpy.datetime64(ev, "s").astype("int64")
                    else:
                        okv = abs(float(r[idx]) - float(ev)) <= tol
                    if nv >= 2 and not is_dt and float(ev) != 0:
                        nontrivial = True
                    if okv and int_fact and int(v2[idx]) != int(ev):
                        # an integer fact's minimum / maximum is one of its values: the (values, validity) format,
                        # which needs no NaN, must give it exactly
                        ctx.violation("value:(values,validity)-format-inexact:" + feat,
                                      "cell %r: %s of an integer fact is %r in the (values, validity) format (dtype %s), textbook %r"
                                      % (idx, agg, v2[idx], v2.dtype, int(ev)), case)
                        return
                    if not okv:
                        ctx.violation("value:" + feat, "cell %r (%d valid rows): library %r, textbook %r" % (idx, nv, r[idx], ev), case)
                        return
            else:
                # covariance / correlation matrices
                cx, cxv = x[rows].astype(float), xv[rows]
                rowok = cxv.all(axis=1) if cw is None else cxv.all(axis=1) & cwv
                if ig:
                    use = rowok
                    sub = cx[use]
                    sw = None if cw is None else cw[use]
                    nuse = int(use.sum())
                    ctx.count("cells:no_rows" if len(rows) == 0 else ("cells:one_valid_row" if nuse == 1 else
                              ("cells:two_valid_rows" if nuse == 2 else ("cells:many_rows" if nuse > 2 else "cells:no_valid_rows"))))
                    if nuse < 2:
                        continue  # undefined: not compared
                    col_missing = numpy.zeros(cx.shape[1], dtype=bool)
                else:
                    sub, sw, nuse = cx, cw, len(rows)
                    ctx.count("cells:no_rows" if len(rows) == 0 else ("cells:one_valid_row" if nuse == 1 else
                              ("cells:two_valid_rows" if nuse == 2 else "cells:many_rows")))
                    if nuse < 2:
                        continue
                    col_missing = ~cxv.all(axis=0)
                    if cw is not None and not cwv.all():
                        col_missing[:] = True
                    if col_missing.any():
                        ctx.count("cells:missing_by_value")
                        nontrivial = True
                if sw is not None and int((sw[numpy.isfinite(sw)] > 0).sum()) < 2 and not col_missing.all():
                    ctx.count("cells:fewer_than_two_rows_of_positive_weight(undefined, not compared)")
                    continue
                for i in range(cx.shape[1]):
                    for j in range(cx.shape[1]):
                        idx = at + (i, j)
                        em = bool(col_missing[i] or col_missing[j])
                        lm = bool(lib_missing[idx])
                        if em:
                            if not lm:
                                ctx.violation("missing:not-reported:" + feat,
                                              "matrix entry %r: a column of the pair has a missing value but the entry is %r" % (idx, r[idx]), case)
                                return
                            continue
                        a, b = sub[:, i], sub[:, j]
                        cij = weighted_cov(a, b, sw)
                        if agg == "covariance":
                            ev = cij
                        else:
                            vi, vj = weighted_cov(a, a, sw), weighted_cov(b, b, sw)
                            if vi <= 1e-12 * mag * mag or vj <= 1e-12 * mag * mag:
                                continue  # zero variance: undefined
                            ev = cij / math.sqrt(vi * vj)
                        if lm:
                            ctx.violation("missing:spurious:" + feat,
                                          "matrix entry %r over %d complete rows is defined (%r) but reported missing" % (idx, nuse, ev), case)
                            return
                        if ev != 0:
                            nontrivial = True
                        if abs(float(r[idx]) - ev) > (tol if agg == "covariance" else 1e-9 + 1e-11 * mag / spread):
                            ctx.violation("value:" + feat, "matrix entry %r (%d rows): library %r, textbook %r" % (idx, nuse, r[idx], ev), case)
                            return
    # "the statistic over the rows that fall in the cell" cannot depend on how the cell is addressed:
    # the one cell of a dimensionless cube and the one cell of a cube whose single dimension has one
    # category hold the same rows (here also with zero weights, for which the textbook formula is moot)
    if not dense and agg in ("stddev", "quantile", "covariance") and n >= 1:
        c3 = dict(case)
        if case["weights"]["kind"] in ("array", "tuple") and agg == "stddev":
            w3 = dict(case["weights"])
            wv3 = w3["values"].copy()
            zr = numpy.random.default_rng(n).random(n) < 0.4
            wv3[zr & numpy.isfinite(wv3)] = 0.0
            w3["values"] = wv3
            c3["weights"] = w3
            ctx.count("class:zero_weights_in_metamorphic_check")
        one = catii.xcube([numpy.zeros(n, dtype="int64")], interacting_shape=(1,))
        a0 = numpy.asarray(aggr.call_x(catii.xcube([]), agg, c3, rma)).astype(float).ravel()
        a1 = numpy.asarray(aggr.call_x(one, agg, c3, rma)).astype(float).ravel()
        ctx.count("metamorphic:zero_dim_vs_one_cell")
        if agg == "covariance":
            # entries of a one-row cell are undefined in both (see assumptions)
            pass
        if a0.shape != a1.shape or not numpy.array_equal(numpy.isnan(a0), numpy.isnan(a1)) or \
                not numpy.all(numpy.abs(a0[~numpy.isnan(a0)] - a1[~numpy.isnan(a1)]) <= tol):
            heavy = numpy.ones(n, dtype=bool) if w is None else (numpy.nan_to_num(numpy.broadcast_to(w, (n,)).astype(float), nan=1.0) > 0)
            complete = int(((xv.all(axis=1) if xv.ndim == 2 else xv) & heavy)[(wv if wv is not None else numpy.ones(n, dtype=bool))].sum()) if ig \
                else int(heavy.sum())
            # covariance of fewer than two (complete) rows is undefined; the two paths of the library
            # legitimately differ there (see assumptions)
            if not (agg == "covariance" and complete < 2):
                ctx.violation("zero-dim-vs-one-cell:%s" % feat,
                              "the single cell of xcube([]) gives %r, the single cell of a one-category cube over the same rows gives %r"
                              % (a0[:4].tolist(), a1[:4].tolist()), c3)
                return
    # weighted quantile: invariance under rescaling all weights by a power of two
    if agg == "quantile" and case["weights"]["kind"] in ("array", "tuple"):
        for factor in (4.0, 2.0 ** -40, 2.0 ** 30):
            c2 = dict(case)
            w2 = dict(case["weights"])
            w2["values"] = case["weights"]["values"] * factor
            c2["weights"] = w2
            r2 = oracles.conform(numpy.asarray(aggr.call_x(cube, agg, c2, rma)), full)
            ctx.count("wq:rescale_checked")
            a, b = r.astype(float), r2.astype(float)
            if not numpy.array_equal(numpy.isnan(a), numpy.isnan(b)) or not numpy.all(a[~numpy.isnan(a)] == b[~numpy.isnan(b)]):
                ctx.violation("weighted-quantile-not-scale-invariant:" + feat,
                              "rescaling all weights by %g changes the weighted quantile (missing cells or values)" % factor, case)
                return
    ctx.evaluation({"d": dense, "a": agg, "f": f, "w": case["weights"], "i": ig, "p": case.get("p")}, nontrivial)
    if ctx.evals % 137 == 1:
        ctx.sample({"dense": dense, "agg": agg, "fact": f["values"] if not is_dt else f["values"].astype("int64"),
                    "weights": case["weights"], "ignore_missing": ig, "p": case.get("p")})
