#!/venv/bin/python
"""Regenerate the as-built workload table of DESIGN.md (6.7) from the evidence files."""
import json, os
ROOT = os.path.dirname(os.path.dirname(os.path.abspath(__file__)))
man = json.load(open(os.path.join(ROOT, "MANIFEST.json")))
tech = {c["property_id"]: c.get("technique", "") for c in man["checks"]}
rows = ["| id | tier | evaluations | distinct non-trivial | wall (s) | shards | deciding technique |", "|---|---|---|---|---|---|---|"]
for i in range(1, 21):
    pid = "C%02d" % i
    p = os.path.join(ROOT, "evidence", pid + ".json")
    if not os.path.exists(p):
        continue
    e = json.load(open(p))
    c = e["coverage"]
    rows.append("| %s | %s | %s | %s | %.0f | %d | %s |" % (pid, e["tier"], format(c["evaluations"], ","), format(c["distinct_nontrivial"], ","),
                                                         e["wall_s"], len(c.get("shards", [])), tech.get(pid, "")[:150]))
table = "\n".join(rows)
p = os.path.join(ROOT, "DESIGN.md")
s = open(p).read()
b, e_ = "<!-- WORKLOAD-TABLE-BEGIN -->", "<!-- WORKLOAD-TABLE-END -->"
s = s[: s.index(b) + len(b)] + "\n" + table + "\n" + s[s.index(e_):]
open(p, "w").write(s)
print(len(rows) - 2, "rows")
