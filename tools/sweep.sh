#!/bin/sh
# tools/sweep.sh <tier> <seed> [props...]: run checks in sequence, one summary line each (no evidence written)
tier=$1; seed=$2; shift 2
props="$@"
[ -z "$props" ] && props="C01 C02 C03 C04 C05 C06 C07 C08 C09 C10 C11 C12 C13 C14 C15 C16 C17 C18 C19 C20"
cd "$(dirname "$0")/.." || exit 2
for p in $props; do
  start=$(date +%s)
  out=$(VERIF_SEED=$seed ./check $p --tier $tier --no-evidence 2>&1)
  rc=$?
  echo "$p tier=$tier seed=$seed rc=$rc wall=$(( $(date +%s) - start ))s :: $(echo "$out" | grep -E '^C[0-9]+ tier' | head -1)"
  if [ $rc -ne 0 ]; then echo "$out" | grep -E "VIOLATION|key=|INCONCLUSIVE" | cut -c1-400 | head -20; fi
done
