"""Shared pieces for the pooled-evaluation properties (C16, C20): cube cases with
3-24 sub-cubes, aggregate-function proxies that record the region views each
task receives (write-set monitor), serial twins."""
import threading

import numpy

from . import aggr, gen, oracles

NaN = float("nan")


def pooled_case(rng, kind, n=None, all_aggs=None):
    """A cube with 3..24 sub-cubes (two or three multi-axis dimensions allowed)."""
    for _ in range(200):
        c = gen.cube_case(rng, min_dims=1, max_dims=3, max_axes=3, multi_axis_prob=0.7, force_multi=True,
                          max_extent=4, max_extra=4, n=n if n is not None else gen.pick(rng, [3, 6, 12, 30]),
                          allow_outside_common=False, explicit_shape=True)
        size = int(numpy.prod(oracles.scaffold_shape(c["dense"]) or (1,)))
        if 3 <= size <= 24:
            break
    else:
        raise RuntimeError("could not generate a pooled cube case")
    c["n"] = c["dense"][0].shape[0]
    c["kind"] = kind
    names = aggr.SHARED if kind == "ccube" else aggr.SHARED + aggr.XONLY
    if all_aggs is None:
        all_aggs = rng.random() < 0.4
    c["aggs"] = list(names) if all_aggs else [gen.pick(rng, names)]
    c["inputs"] = [aggr.agg_inputs(rng, c["n"]) if a in aggr.SHARED else aggr.xonly_inputs(rng, c["n"], a)
                   for a in c["aggs"]]
    c["subcubes"] = size
    return c


def build_cube(case):
    import catii

    dense = [numpy.asarray(d) for d in case["dense"]]
    shape = tuple(case["shape"])
    if case["kind"] == "ccube":
        return catii.ccube(gen.cube_dims(case), interacting_shape=shape)
    return catii.xcube([a.copy() for a in dense], interacting_shape=shape)


def make_funcs(case):
    from .props.c17 import make_func

    out = []
    for agg, inp in zip(case["aggs"], case["inputs"]):
        r = aggr.nat_for(inp)
        fn, _ = make_func(case["kind"], agg, inp, r)
        out.append(fn)
    return out


def result_bytes(res):
    """Bit-exact rendering of a calculate() result list."""
    out = []
    for r in res:
        parts = r if isinstance(r, tuple) else (r,)
        for p in parts:
            a = numpy.asarray(p)
            out.append((a.dtype.str, a.shape, a.tobytes()))
    return out


class Recorder:
    """Event log shared by the proxies and the interrupt callback."""

    def __init__(self):
        self.lock = threading.Lock()
        self.events = []           # (kind, thread ident, payload)
        self.initial = {}          # function index -> the initial regions of this call
        self.closed = False        # set when calculate has returned or raised
        self.late = 0

    def log(self, kind, payload=None):
        with self.lock:
            if self.closed:
                self.late += 1
            self.events.append((kind, threading.get_ident(), payload))


def _arrays_in(args):
    """The list/tuple of region arrays among the positional arguments of a fill call."""
    for a in args:
        if isinstance(a, (list, tuple)) and a and all(isinstance(x, numpy.ndarray) for x in a):
            return list(a)
    return None


def FuncProxy(real, rec, index):
    """An object of a dynamic SUBCLASS of the aggregate's own class that shares the aggregate's state:
    it is transparent to isinstance checks, attribute access and any extra arguments the cube may pass,
    and records the region views handed to each task (fill_func(regions) for index-cube functions,
    fill(coordinates, regions) for array-cube functions)."""
    cls = real.__class__

    class Proxy(cls):
        def get_initial_regions(self, *a, **k):
            regions = cls.get_initial_regions(self, *a, **k)
            rec.initial[index] = list(regions)
            rec.log("initial", (index, len(regions)))
            return regions

    if hasattr(cls, "fill_func"):
        def fill_func(self, *a, **k):
            regions = _arrays_in(a)
            if regions is not None:
                rec.log("handover", (index, regions))
            return cls.fill_func(self, *a, **k)
        Proxy.fill_func = fill_func
    if hasattr(cls, "fill"):
        def fill(self, *a, **k):
            regions = _arrays_in(a)
            if regions is not None:
                rec.log("handover", (index, regions))
            return cls.fill(self, *a, **k)
        Proxy.fill = fill
    Proxy.__name__ = cls.__name__
    Proxy.__qualname__ = cls.__qualname__
    p = object.__new__(Proxy)
    p.__dict__ = real.__dict__
    return p


def check_write_sets(rec, proxies):
    """Views handed to different tasks must be pairwise disjoint and must be views
    of that call's own initial regions.  Returns (problem or None, n_pairs)."""
    per_func = {}
    for kind, tid, payload in rec.events:
        if kind == "handover":
            per_func.setdefault(payload[0], []).append(payload[1])
    pairs = 0
    for fi, handovers in per_func.items():
        initial = rec.initial.get(fi)
        for regions in handovers:
            # (when the initial regions were seen and correspond one to one: each handed-over view must
            # be a view of this call's own regions; otherwise only disjointness is judged)
            if initial is not None and len(regions) == len(initial):
                for r, base in zip(regions, initial):
                    if not numpy.shares_memory(r, base):
                        return "function %d was handed a region that is not a view of this call's initial regions" % fi, pairs
        for a in range(len(handovers)):
            for b in range(a + 1, len(handovers)):
                for ra, rb in zip(handovers[a], handovers[b]):
                    pairs += 1
                    if ra.size and rb.size and numpy.shares_memory(ra, rb):
                        return "function %d: the region views of two tasks overlap" % fi, pairs
    return None, pairs
