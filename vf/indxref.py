"""Independent INDX encoder/decoder, written from the format description in the
class docstring of catii.indxio.IndxIO only:

    All integers are unsigned, little-endian.
    8-byte magic+version "INDX0001"
    buffer size           8 bytes   (length of everything after these 16 bytes)
    index dimensions      1 byte
    index length          4 bytes
    index word size       1 byte    01/02/04/08, governs:
    index common value    1 word
    index                 length x dimensions words (one coordinate tuple per entry)
    rowid word size       1 byte    01/02/04/08, governs:
    rowid lengths         length words
    rowids                concatenated row ids, entry by entry
"""
MAGIC = b"INDX0001"


class FormatError(Exception):
    pass


def word(size, value):
    if not (0 <= value < 1 << (8 * size)):
        raise FormatError("value %d does not fit %d-byte word" % (value, size))
    return int(value).to_bytes(size, "little")


def narrowest_word(maxval):
    for size in (1, 2, 4, 8):
        if maxval < 1 << (8 * size):
            return size
    raise FormatError("value too large")


def payload_size(n_entries, dims, iw, rw, total_rowids):
    return 1 + 4 + 1 + iw + n_entries * dims * iw + 1 + n_entries * rw + total_rowids * rw


def encode(items, common, iw=None, rw=4, dims=None):
    """items: list of (coords tuple, list of row ids) in file order."""
    if dims is None:
        dims = len(items[0][0]) if items else 0
    maxc = max([common] + [c for coords, _ in items for c in coords])
    if iw is None:
        iw = narrowest_word(maxc)
    body = bytearray()
    body += word(1, dims)
    body += word(4, len(items))
    body += word(1, iw)
    body += word(iw, common)
    for coords, _ in items:
        if len(coords) != dims:
            raise FormatError("ragged coordinates")
        for c in coords:
            body += word(iw, c)
    body += word(1, rw)
    for _, rowids in items:
        body += word(rw, len(rowids))
    for _, rowids in items:
        for r in rowids:
            body += word(rw, r)
    return MAGIC + len(body).to_bytes(8, "little") + bytes(body)


def decode(data):
    """Return (items, common, info) or raise FormatError."""
    if len(data) < 16 or data[:8] != MAGIC:
        raise FormatError("bad magic/version")
    size = int.from_bytes(data[8:16], "little")
    if len(data) != 16 + size:
        raise FormatError("size field %d but payload is %d bytes" % (size, len(data) - 16))
    pos = 16

    def take(n):
        nonlocal pos
        if pos + n > len(data):
            raise FormatError("truncated")
        b = data[pos:pos + n]
        pos += n
        return int.from_bytes(b, "little")

    dims = take(1)
    length = take(4)
    iw = take(1)
    if iw not in (1, 2, 4, 8):
        raise FormatError("index word size %d" % iw)
    common = take(iw)
    coords = [tuple(take(iw) for _ in range(dims)) for _ in range(length)]
    rw = take(1)
    if rw not in (1, 2, 4, 8):
        raise FormatError("rowid word size %d" % rw)
    lengths = [take(rw) for _ in range(length)]
    items = []
    for c, n in zip(coords, lengths):
        items.append((c, [take(rw) for _ in range(n)]))
    if pos != len(data):
        raise FormatError("%d trailing bytes" % (len(data) - pos))
    return items, common, {"dims": dims, "iw": iw, "rw": rw, "size": size}
