#!/venv/bin/python
"""Regenerate /verif/MANIFEST.json from the table below (kept in one place so
the manifest is always schema-valid)."""
import json
import os
import subprocess

ROOT = os.path.dirname(os.path.dirname(os.path.abspath(__file__)))

# id -> (level, technique, level text, level note, design section)
CHECKS = {
    "C19": ("exploration",
            "reference-model monitor (numpy.iinfo) over an exhaustive threshold partition + in-situ call monitor",
            "Every (max,min) pair of the threshold partition (all powers of two +-1, both signs, one- and two-argument "
            "forms) is executed against the real fit_dtype and judged by numpy.iinfo plus an actual store/load; "
            "thorough adds 10^6 random pairs and judges every call the library itself makes (to_array, collapsed, "
            "INDX save) through a wrapper installed at both binding sites. Exhaustive over the partition, sampled elsewhere.",
            "Trusts numpy.iinfo; the partition is induced by powers of two, so a threshold at a non-power-of-two "
            "constant would only be seen by the random pairs.",
            "DESIGN.md section 2 C19"),
}

PENDING_REASON = "check not built yet in this session (work in progress; runtime monitoring does apply, see DESIGN.md)"


def main():
    props = [json.loads(l)["id"] for l in open(os.path.join(ROOT, "properties.jsonl"))]
    try:
        fixes = subprocess.run(["git", "-C", "/repo", "log", "--format=%h %s", "--grep=^fix:"],
                               capture_output=True, text=True).stdout.strip().splitlines()
    except Exception:
        fixes = []
    checks = []
    for pid in props:
        if pid not in CHECKS:
            continue
        level, technique, text, note, ref = CHECKS[pid]
        checks.append({
            "property_id": pid,
            "quick_cmd": "./check %s --tier quick" % pid,
            "thorough_cmd": "./check %s --tier thorough" % pid,
            "evidence_file": "/verif/evidence/%s.json" % pid,
            "replay_cmd_template": "./check %s --replay {path}" % pid,
            "engine": "vf",
            "level_claimed": {"category": level, "text": text, "design_ref": ref},
            "level_note": note,
            "technique": technique,
        })
    manifest = {
        "version": 1,
        "setup_cmd": "./setup.sh",
        "hooks": {
            "guard": "CATII_VERIF",
            "enable": "no hooks are compiled into /repo: every monitor is installed from the harness (wrappers at "
                      "every binding site, sys.monitoring probes, sanitizer rebuilds of the working-tree .pyx); the "
                      "guard name exists for form only",
            "baseline_off_cmd": "cd /repo && /venv/bin/python -m pytest -ra -q -p no:cacheprovider --timeout=900 "
                                "--continue-on-collection-errors",
            "source_commits": [],
            "add_only": True,
        },
        "engines": [{
            "name": "vf",
            "path": "/verif/vf",
            "serves_properties": [c["property_id"] for c in checks],
            "kind_free_text": "runtime monitoring: shadow copy of the working tree + kernel rebuilt from the .pyx "
                              "(plain / bounds-checked / ASan+UBSan), sharded subprocess workers, reference-model "
                              "oracles, event-log checkers, deterministic thread scheduler",
        }],
        "checks": checks,
        "notes": "Exit codes: 0 held on what was observed, 1 VIOLATION, 2 INCONCLUSIVE (a deciding monitor was not "
                 "reached or a watchdog fired). Repository repairs (fix: commits) are listed in known_findings.json.",
        "not_applicable": [{"property_id": p, "reason": PENDING_REASON} for p in props if p not in CHECKS],
    }
    with open(os.path.join(ROOT, "MANIFEST.json"), "w") as f:
        json.dump(manifest, f, indent=1)
        f.write("\n")
    print("MANIFEST.json: %d checks, %d not_applicable" % (len(checks), len(manifest["not_applicable"])))


if __name__ == "__main__":
    main()
