#!/venv/bin/python
"""Regenerate the seeded-change table in DESIGN.md from seeded/*/meta.json."""
import json, os, re
ROOT = os.path.dirname(os.path.dirname(os.path.abspath(__file__)))
rows = ["| id | property | what the change does (author's words, shortened) | caught by (quick tier) | first violation key of the property's check |", "|---|---|---|---|---|"]
for cid in sorted(os.listdir(os.path.join(ROOT, "seeded"))):
    m = json.load(open(os.path.join(ROOT, "seeded", cid, "meta.json")))
    what = re.sub(r"\s+", " ", str(m.get("breaks") or ""))[:170].replace("|", "/")
    fr = m.get("final_run", {}).get("final", {})
    own = fr.get(m["property"], {})
    key = (own.get("violation_keys") or ["-"])[0].replace("|", "/")[:70]
    rows.append("| %s | %s | %s | %s | `%s` |" % (cid, m["property"], what, ", ".join(m.get("caught_by") or []) or "**none**", key))
table = "\n".join(rows)
p = os.path.join(ROOT, "DESIGN.md")
s = open(p).read()
b, e = "<!-- SEEDED-TABLE-BEGIN -->", "<!-- SEEDED-TABLE-END -->"
s = s[: s.index(b) + len(b)] + "\n" + table + "\n" + s[s.index(e):]
open(p, "w").write(s)
print(len(rows) - 2, "rows")
