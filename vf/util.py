"""Serialisation and hashing of cases (literal inputs) for replay and evidence."""
import hashlib
import json
import math

import numpy


def to_jsonable(obj, limit=None):
    """Convert a case (nested dict/list/tuple/ndarray/scalars) to JSON-able
    data that from_jsonable() restores exactly."""
    if isinstance(obj, numpy.ndarray):
        if obj.dtype.kind == "M":
            data = obj.astype("int64").ravel().tolist()
        elif obj.dtype.kind == "f":
            data = [_f(x) for x in obj.ravel().tolist()]
        else:
            data = obj.ravel().tolist()
        return {"__nd__": data, "dtype": obj.dtype.str, "shape": list(obj.shape)}
    if isinstance(obj, numpy.generic):
        return to_jsonable(obj.item())
    if isinstance(obj, float):
        return _f(obj)
    if isinstance(obj, (bool, int, str)) or obj is None:
        return obj
    if isinstance(obj, tuple):
        return {"__tuple__": [to_jsonable(x) for x in obj]}
    if isinstance(obj, (list,)):
        return [to_jsonable(x) for x in obj]
    if isinstance(obj, (set, frozenset)):
        return {"__set__": [to_jsonable(x) for x in sorted(obj)]}
    if isinstance(obj, dict):
        if all(isinstance(k, str) for k in obj):
            return {k: to_jsonable(v) for k, v in obj.items()}
        return {"__dict__": [[to_jsonable(k), to_jsonable(v)] for k, v in obj.items()]}
    if isinstance(obj, numpy.dtype):
        return {"__dtype__": obj.str}
    if isinstance(obj, type) and issubclass(obj, numpy.generic):
        return {"__dtype__": numpy.dtype(obj).str}
    return {"__repr__": repr(obj)}


def _f(x):
    if isinstance(x, float):
        if math.isnan(x):
            return {"__f__": "nan"}
        if math.isinf(x):
            return {"__f__": "inf" if x > 0 else "-inf"}
    return x


def from_jsonable(obj):
    if isinstance(obj, list):
        return [from_jsonable(x) for x in obj]
    if isinstance(obj, dict):
        if "__nd__" in obj:
            dt = numpy.dtype(obj["dtype"])
            data = [from_jsonable(x) for x in obj["__nd__"]]
            if dt.kind == "M":
                return numpy.array(data, dtype="int64").astype(dt).reshape(obj["shape"])
            return numpy.array(data, dtype=dt).reshape(obj["shape"])
        if "__f__" in obj:
            return float(obj["__f__"])
        if "__tuple__" in obj:
            return tuple(from_jsonable(x) for x in obj["__tuple__"])
        if "__set__" in obj:
            return set(from_jsonable(x) for x in obj["__set__"])
        if "__dict__" in obj:
            return {_hashable(from_jsonable(k)): from_jsonable(v) for k, v in obj["__dict__"]}
        if "__dtype__" in obj:
            return numpy.dtype(obj["__dtype__"])
        if "__repr__" in obj:
            return obj["__repr__"]
        return {k: from_jsonable(v) for k, v in obj.items()}
    return obj


def _hashable(k):
    if isinstance(k, list):
        return tuple(_hashable(x) for x in k)
    return k


def _feed(h, obj):
    if isinstance(obj, numpy.ndarray):
        h.update(b"A" + obj.dtype.str.encode() + repr(obj.shape).encode())
        h.update(numpy.ascontiguousarray(obj).tobytes())
    elif isinstance(obj, dict):
        h.update(b"D")
        for k in obj:
            _feed(h, k)
            _feed(h, obj[k])
        h.update(b"d")
    elif isinstance(obj, (list, tuple)):
        h.update(b"L" if isinstance(obj, list) else b"T")
        for x in obj:
            _feed(h, x)
        h.update(b"l")
    elif isinstance(obj, (set, frozenset)):
        h.update(b"S")
        for x in sorted(obj, key=repr):
            _feed(h, x)
        h.update(b"s")
    else:
        h.update(repr(obj).encode())
        h.update(b";")


def case_hash(obj):
    h = hashlib.blake2b(digest_size=8)
    _feed(h, obj)
    return h.hexdigest()


def short(obj, maxlen=600):
    """A compact literal rendering of a case for evidence samples."""
    def conv(o):
        if isinstance(o, numpy.ndarray):
            if o.size <= 24:
                return {"array": to_jsonable(o)["__nd__"], "dtype": str(o.dtype), "shape": list(o.shape)}
            return {"array_head": to_jsonable(o.ravel()[:12])["__nd__"], "dtype": str(o.dtype),
                    "shape": list(o.shape)}
        if isinstance(o, dict):
            return {str(k): conv(v) for k, v in o.items()}
        if isinstance(o, (list, tuple)):
            if len(o) > 24:
                return [conv(x) for x in o[:12]] + ["... %d more" % (len(o) - 12)]
            return [conv(x) for x in o]
        if isinstance(o, (set, frozenset)):
            return sorted(conv(x) for x in o)
        if isinstance(o, numpy.generic):
            return conv(o.item())
        if isinstance(o, float):
            return o if math.isfinite(o) else repr(o)
        if isinstance(o, (int, str, bool)) or o is None:
            return o
        return repr(o)

    return conv(obj)


def dumps(obj):
    return json.dumps(obj, indent=1, default=repr)
