#!/bin/sh
# tools/vet_all.sh <outdir> <prop>...: full vetting (demo clean/patched, test suite, own check) of <outdir>/<prop>/change{1,2}
out=$1; shift
for p in "$@"; do for k in 1 2; do
  d=$out/$p/change$k
  [ -f $d/patch.diff ] || continue
  /verif/tools/vet_seeded.py $d > $out/vet-$p-$k.json 2>&1
done; done
