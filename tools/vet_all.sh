#!/bin/sh
# tools/vet_all.sh <prop>...: full vetting (demo clean/patched, test suite, own check) of /tmp/seeded-out/<prop>/change{1,2}
for p in "$@"; do for k in 1 2; do
  d=/tmp/seeded-out/$p/change$k
  [ -f $d/patch.diff ] || continue
  /verif/tools/vet_seeded.py $d > /tmp/seeded-out/vet-$p-$k.json 2>&1
done; done
