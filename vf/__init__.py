"""Runtime-monitoring framework for catii (see /verif/DESIGN.md)."""
import os

VERIF_ROOT = os.path.dirname(os.path.dirname(os.path.abspath(__file__)))
PYTHON = "/venv/bin/python"


def catii_src():
    """Directory holding the catii package sources under test."""
    return os.environ.get("CATII_SRC", "/repo/src/catii")
