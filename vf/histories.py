"""History engine shared by C06 (operations track NumPy), C07 (well-formedness)
and C15 (chosen common is most frequent; equality is canonical).

A history keeps a pool of live objects, each a real iindex `x` paired with its
NumPy model `m` (an int64 array).  Every step applies one library operation to
the index and the corresponding NumPy operation to the model; the aspect's
oracles are evaluated at quiescent points (after the top-level call returned).
All random choices depend on the seed and on the *models* only, never on what
the library returned, so a history is a pure function of its seed."""
import os
import tempfile

import numpy

from . import gen, monitors
from .util import case_hash

I64 = numpy.int64
U32 = numpy.uint32


class Stop(Exception):
    """End this history (first violation, or a precondition of the aspect failed)."""


class Live:
    __slots__ = ("x", "m", "origin")

    def __init__(self, x, m, origin):
        self.x, self.m, self.origin = x, m, origin


# --------------------------------------------------------------------------- #
def alphabet(rng):
    cls = gen.wpick(rng, [("small", 6), ("neg", 2), ("wide", 1), ("two", 1)])
    if cls == "small":
        return list(range(int(rng.integers(2, 7))))
    if cls == "neg":
        return [-3, -1, 0, 1, 2, 4][: int(rng.integers(2, 7))]
    if cls == "two":
        return [0, 1]
    return [0, 1, 255, 256, 70000, 3]


def gen_model(rng, vals, shape):
    dist = gen.wpick(rng, [("uniform", 4), ("skew", 3), ("sparse", 1), ("single", 1), ("ties", 2)])
    size = int(numpy.prod(shape))
    return gen.draw_values(rng, size, vals, dist).astype(I64).reshape(shape)


def pick_common(rng, m, vals):
    mode = gen.wpick(rng, [("frequent", 4), ("any", 3), ("absent", 2)])
    present = numpy.unique(m).tolist() if m.size else []
    if mode == "frequent" and present:
        u, c = numpy.unique(m, return_counts=True)
        return int(u[int(numpy.argmax(c))])
    if mode == "any" and present:
        return int(gen.pick(rng, present))
    absent = [v for v in vals + [max(vals) + 1, min(vals) - 1] if v not in present]
    return int(gen.pick(rng, absent)) if absent else int(gen.pick(rng, vals))


def counts_of(m):
    if not m.size:
        return {}
    u, c = numpy.unique(m, return_counts=True)
    return dict(zip([int(x) for x in u.tolist()], [int(x) for x in c.tolist()]))


def rows_where(m, v, pos=()):
    col = m[(slice(None),) + tuple(pos)]
    return numpy.nonzero(col == v)[0]


# --------------------------------------------------------------------------- #
class History:
    def __init__(self, ctx, aspect, hseed, nsteps, profile=None):
        self.ctx = ctx
        self.aspect = aspect
        self.hseed = hseed
        self.nsteps = nsteps
        self.rng = numpy.random.default_rng([hseed, 77])
        self.vals = alphabet(self.rng)
        self.pool = []
        self.oplog = []
        self.kinds = set()
        self.entry_set_changed = False
        self.common_changed = False
        self.tie_seen = False
        self.prev_op = None
        self.profile = profile or {}
        self.case = {"hseed": hseed, "nsteps": nsteps, "aspect": aspect, "profile": self.profile}

    # ------------------------------------------------------------------ #
    def log(self, op, **kw):
        self.oplog.append((op, kw))
        self.kinds.add(op)
        self.ctx.count("op:" + op)
        if self.prev_op is not None:
            self.ctx.count("succ:%s>%s" % (self.prev_op, op))
        self.prev_op = op

    def violation(self, key, msg):
        case = dict(self.case)
        case["oplog"] = [(op, {k: (v if not isinstance(v, numpy.ndarray) or v.size <= 64 else "array%r" % (v.shape,))
                               for k, v in kw.items()}) for op, kw in self.oplog]
        self.ctx.violation(key, msg + "\nlast op: %r" % (self.oplog[-1],) if self.oplog else msg, case)
        raise Stop()

    # ------------------------------------------------------------------ #
    def fresh(self, ndim=None, n=None, trailing=None, via=None):
        rng = self.rng
        if ndim is None:
            ndim = gen.wpick(rng, [(1, 4), (2, 5), (3, 1)])
        if n is None:
            n = gen.pick(rng, [0, 1, 2, 3, 5, 8, 13])
        if trailing is None:
            trailing = tuple(int(rng.integers(1, 4)) for _ in range(ndim - 1))
        m = gen_model(rng, self.vals, (n,) + tuple(trailing))
        via = via or ("from_array" if (ndim <= 2 and rng.random() < 0.3 and m.size) else "constructor")
        if via == "from_array":
            from catii import iindex

            x = iindex.from_array(m.copy())
            self.log("from_array", shape=m.shape)
            live = Live(x, m, "from_array")
            self.after_step([live], normalised=[live])
        else:
            common = pick_common(rng, m, self.vals)
            x = gen.dense_to_index(m, common)
            live = Live(x, m, "constructor")
        return live

    def choose(self, pred=None):
        # 3-D indexes are quantified over for slicing / slice iteration only
        if pred is None:
            pred = lambda l: l.m.ndim <= 2
        cand = [l for l in self.pool if pred(l)]
        if not cand:
            return None
        return cand[int(self.rng.integers(0, len(cand)))]

    def add(self, live):
        self.pool.append(live)
        if len(self.pool) > 8:
            self.pool.pop(int(self.rng.integers(0, len(self.pool) - 1)))

    # ------------------------------------------------------------------ #
    # oracles
    def dense_of(self, x):
        """The observation named by C06: to_array(dtype=int)."""
        return x.to_array(dtype=I64)

    def structurally_sound(self, x):
        """Minimal soundness needed to densify with harness code."""
        try:
            if type(x.shape) is not tuple:
                return False
            for k, v in dict.items(x):
                if type(k) is not tuple or len(k) != len(x.shape):
                    return False
                if not isinstance(v, numpy.ndarray) or v.ndim != 1:
                    return False
                if len(v) and int(v.max()) >= x.shape[0]:
                    return False
                for c, e in zip(k[1:], x.shape[1:]):
                    if not (0 <= c < e):
                        return False
            return True
        except Exception:
            return False

    def check_dense(self, live, what):
        x, m = live.x, live.m
        if tuple(x.shape) != tuple(m.shape):
            if self.aspect == "C06":
                self.violation("shape:" + what, "%s: index shape %r, model shape %r" % (what, x.shape, m.shape))
            self.ctx.count("stopped:dense-mismatch(blame C06)")
            raise Stop()
        if self.aspect == "C06" and m.ndim <= 2:
            d = self.dense_of(x)
        else:
            # (to_array covers 1-D and 2-D only; 3-D results of slicing are
            # densified by harness code)
            if not self.structurally_sound(x):
                if self.aspect == "C07":
                    return  # the well-formedness oracle reports it
                self.ctx.count("stopped:ill-formed(blame C07)")
                raise Stop()
            d = gen.index_to_dense(x, I64)
        if not numpy.array_equal(d, m):
            if self.aspect == "C06":
                bad = numpy.argwhere(d != m)
                pos = tuple(int(i) for i in bad[0])
                self.violation("dense:" + what,
                               "%s: to_array differs from the NumPy model in %d cells; first at %r: index %r model %r "
                               "(common %r)" % (what, len(bad), pos, d[pos], m[pos], x.common))
            self.ctx.count("stopped:dense-mismatch(blame C06)")
            raise Stop()

    def check_wellformed(self, live, what):
        x, m = live.x, live.m
        problems = []
        try:
            x.validate(True)
        except Exception as e:
            problems.append("validate(True): %s: %s" % (type(e).__name__, e))
        if type(x.shape) is not tuple or not all(type(s) is int for s in x.shape):
            problems.append("shape %r is not a tuple of ints" % (x.shape,))
        for k, v in dict.items(x):
            if type(k) is not tuple or len(k) != len(x.shape):
                problems.append("key %r has arity != ndim %d" % (k, len(x.shape)))
                continue
            if not all(type(c) is int for c in k):
                problems.append("key %r has non-int coordinates %r" % (k, [type(c).__name__ for c in k]))
            if k[0] == x.common:
                problems.append("entry %r listed under the common value" % (k,))
            for c, e in zip(k[1:], x.shape[1:]):
                if not (0 <= c < e):
                    problems.append("key %r outside shape %r" % (k, x.shape))
            if not isinstance(v, numpy.ndarray) or v.dtype != U32 or v.ndim != 1:
                problems.append("entry %r is not a 1-D uint32 array: %r" % (k, getattr(v, "dtype", type(v))))
                continue
            if len(v) == 0:
                problems.append("entry %r is empty" % (k,))
            elif int(v.max()) >= x.shape[0]:
                problems.append("entry %r has row id %d >= %d rows" % (k, int(v.max()), x.shape[0]))
            if len(v) > 1 and not bool(numpy.all(v[1:] > v[:-1])):
                problems.append("entry %r row ids not strictly increasing" % (k,))
        if problems:
            self.violation("ill-formed:%s:%s" % (what, problems[0].split(":")[0].split(" ")[0]),
                           "%s: result is not well-formed: %s" % (what, "; ".join(problems[:4])))
        # consequences: distinct values, sparsity, inferred cube shape
        present = set(int(v) for v in numpy.unique(m).tolist()) if m.size else set()
        try:
            absc = set(x.abscissae)
        except Exception as e:
            self.violation("abscissae-raises:" + what, "%s: abscissae raised %r" % (what, e))
        if absc != present:
            self.violation("abscissae:" + what, "%s: abscissae %r but the values present are %r" % (what, sorted(absc), sorted(present)))
        exp_sp = (100.0 * int((m == x.common).sum()) / m.size) if m.size else 0
        if abs(x.sparsity - exp_sp) > 1e-9:
            self.violation("sparsity:" + what, "%s: sparsity %r, expected %r" % (what, x.sparsity, exp_sp))
        if (not present or min(present) >= 0) and x.common >= 0:
            import catii

            shp = catii.ccube([x]).shape
            exp = tuple(m.shape[1:]) + (max(present | {x.common}) + 1,)
            if tuple(shp) != exp:
                self.violation("cube-shape:" + what, "%s: inferred cube shape %r, expected %r" % (what, shp, exp))
            self.ctx.count("wf:cube_shape_checked")
        self.ctx.count("wf:checked")

    def check_most_frequent(self, live, what):
        x, m = live.x, live.m
        cnt = counts_of(m)
        if not cnt:
            return
        top = max(cnt.values())
        have = cnt.get(x.common, 0)
        if sum(1 for c in cnt.values() if c == top) > 1:
            self.tie_seen = True
            self.ctx.count("mf:tie")
        self.ctx.count("mf:checked")
        if have < top:
            self.violation("not-most-frequent:" + what,
                           "%s: chosen common %r occurs %d times, value %r occurs %d times"
                           % (what, x.common, have, max(cnt, key=cnt.get), top))

    def check_equality(self, live, what):
        x, m = live.x, live.m
        rng = self.rng
        t = gen.dense_to_index(m, x.common)
        ctx = self.ctx

        def eq(a, b, expect, label):
            try:
                r1 = a == b
                r2 = a != b
            except Exception as e:
                self.violation("eq-raises:%s:%s" % (label, type(e).__name__),
                               "%s: comparison (%s) raised %s: %s" % (what, label, type(e).__name__, e))
            ctx.count("eq:comparisons")
            if not isinstance(r1, (bool, numpy.bool_)) or not isinstance(r2, (bool, numpy.bool_)):
                self.violation("eq-not-bool:" + label, "%s: (%s) == gave %r, != gave %r" % (what, label, r1, r2))
            if r1 != expect:
                self.violation("eq-wrong:%s:%s" % (label, "false-negative" if expect else "false-positive"),
                               "%s: (%s) == returned %r, expected %r; index %r" % (what, label, r1, expect, x))
            if r2 != (not r1):
                self.violation("ne-not-negation:" + label, "%s: (%s) == gave %r but != gave %r" % (what, label, r1, r2))

        eq(x, t, True, "index==twin")
        eq(t, x, True, "twin==index")
        eq(x, x, True, "reflexive")
        c = gen.dense_to_index(m.copy(), x.common)
        eq(t, c, True, "twin==twin2")
        eq(x, c, True, "transitive")
        # a difference in any of (shape, common, content) makes them unequal
        if m.size:
            m2 = m.copy()
            pos = tuple(int(rng.integers(0, s)) for s in m.shape)
            others = [v for v in self.vals + [max(self.vals) + 1] if v != m2[pos]]
            m2[pos] = gen.pick(rng, others)
            p = gen.dense_to_index(m2, x.common)
            eq(x, p, False, "content-perturbed")
            eq(p, x, False, "content-perturbed-rev")
        m3 = numpy.concatenate([m, numpy.full((1,) + m.shape[1:], x.common, dtype=I64)])
        p = gen.dense_to_index(m3, x.common)
        eq(x, p, False, "shape-perturbed")
        eq(p, x, False, "shape-perturbed-rev")
        # one trailing axis more (also of extent 1) / one less: another shape, another array
        for ext in (1, 2):
            m4 = numpy.repeat(m[..., None], ext, axis=-1)
            p = gen.dense_to_index(m4, x.common)
            eq(x, p, False, "axis-added(extent %d)" % ext)
            eq(p, x, False, "axis-added(extent %d)-rev" % ext)
        if m.ndim >= 2:
            p = gen.dense_to_index(m[..., 0], x.common)
            eq(x, p, False, "axis-dropped")
            eq(p, x, False, "axis-dropped-rev")
        oc = [v for v in self.vals + [max(self.vals) + 1, min(self.vals) - 1] if v != x.common]
        p = gen.dense_to_index(m, gen.pick(rng, oc))
        eq(x, p, False, "common-perturbed")
        eq(p, x, False, "common-perturbed-rev")
        for other, label in (({}, "vs-empty-dict"), (None, "vs-None"), (5, "vs-int"),
                             (numpy.zeros(m.shape, dtype=I64), "vs-ndarray"),
                             ({k: v for k, v in dict.items(x)}, "vs-plain-dict")):
            try:
                r1 = x == other
                r2 = x != other
                if isinstance(r1, numpy.ndarray) or isinstance(r2, numpy.ndarray):
                    raise TypeError("array-valued comparison result")
            except Exception as e:
                self.violation("eq-raises:%s:%s" % (label, type(e).__name__),
                               "%s: comparison with a non-index (%s) raised %s: %s" % (what, label, type(e).__name__, e))
            ctx.count("eq:comparisons")
            if r1 is not False or r2 is not True:
                self.violation("eq-non-index:" + label, "%s: index == %s gave %r, != gave %r" % (what, label, r1, r2))

    def after_step(self, lives, normalised=(), what=None):
        what = what or (self.oplog[-1][0] if self.oplog else "init")
        for live in lives:
            if self.aspect == "C07":
                # well-formedness is judged first: it is C07's claim whatever the content has become
                self.check_wellformed(live, what)
            self.check_dense(live, what)
            if self.aspect == "C07":
                pass
            elif self.aspect == "C15":
                if not self.wellformed_quiet(live.x):
                    self.ctx.count("skipped:ill-formed(blame C07)")
                    raise Stop()
                self.check_equality(live, what)
        if self.aspect == "C15":
            for live in normalised:
                self.check_most_frequent(live, what)
        if self.aspect == "C06":
            # every other live object (neither receiver nor operand of this step) still stands for its array
            checked = set(id(l) for l in lives)
            for live in self.pool:
                if id(live) in checked or live.m.size > 200000:
                    continue
                if not self.structurally_sound(live.x) or tuple(live.x.shape) != tuple(live.m.shape) or \
                        not numpy.array_equal(gen.index_to_dense(live.x, I64), live.m):
                    self.violation("bystander-changed:" + what,
                                   "%s changed a live index that was neither its receiver nor an operand (created by %s): "
                                   "storage shared with it was written in place" % (what, live.origin))
            self.ctx.count("bystanders:checked", max(0, len(self.pool) - len(checked)))

    def wellformed_quiet(self, x):
        try:
            x.validate(True)
        except Exception:
            return False
        for k, v in dict.items(x):
            if len(v) == 0 or not all(type(c) is int for c in k):
                return False
        return True

    def unchanged(self, snap, obj, what):
        if self.aspect != "C06":
            return
        d = monitors.snapshot_diff(snap, monitors.snapshot(obj))
        if d:
            self.violation("operand-mutated:" + what, "%s changed an operand other than the receiver: %s" % (what, d))

    def no_sharing(self, a, b, what):
        if self.aspect != "C06":
            return
        for ka, va in dict.items(a):
            for kb, vb in dict.items(b):
                if isinstance(va, numpy.ndarray) and isinstance(vb, numpy.ndarray) and numpy.shares_memory(va, vb):
                    self.violation("copy-shares-memory:" + what,
                                   "%s: an explicitly requested copy shares storage with its source (%r / %r)" % (what, ka, kb))

    # ------------------------------------------------------------------ #
    def huge(self):
        """A sparse 2-D index of more than 2^22 cells in which some columns list nothing."""
        rng = self.rng
        n = 2 ** 20 + int(rng.integers(1, 200000))
        cols = int(rng.integers(4, 7))
        m = numpy.zeros((n, cols), dtype=I64)
        vals = [v for v in self.vals if v != 0] or [1]
        # always: a column that lists something followed by one that lists nothing, and a listing last column
        listing = [bool(rng.random() < 0.5) for _ in range(cols)]
        listing[0], listing[1], listing[-1] = True, False, True
        for c in range(cols):
            if listing[c]:
                rows = rng.choice(n, size=int(rng.integers(1, 30)), replace=False)
                m[rows, c] = rng.choice(vals, size=len(rows))
        return Live(gen.dense_to_index(m, 0), m, "huge")

    def medium(self):
        """A few thousand rows and few values: every entry lists more than a thousand row ids (lists long enough for
        whatever an implementation does differently for big lists - growth in place, spare room, block copies)."""
        rng = self.rng
        n = int(gen.pick(rng, [3400, 4100, 9000]))
        cols = int(rng.integers(1, 3))
        vals = list(self.vals)[:3] if len(self.vals) >= 2 else [0, 1]
        m = numpy.asarray(vals, dtype=I64)[rng.integers(0, len(vals), size=(n, cols) if cols > 1 or rng.random() < 0.5 else (n,))]
        return Live(gen.dense_to_index(m, int(vals[0])), m, "medium")

    def run(self):
        ctx = self.ctx
        try:
            self.add(self.huge() if self.profile.get("huge") else (self.medium() if self.profile.get("medium") else self.fresh()))
            for step in range(self.nsteps):
                first = self.profile.get("first_ops") or []
                if self.profile.get("first_ops_choices"):
                    ch = self.profile["first_ops_choices"]
                    first = ch[self.hseed % len(ch)]
                if step < len(first) and getattr(self, "op_" + first[step])():
                    continue
                self.step()
        except Stop:
            pass
        nt = len(self.kinds - {"observe"}) >= 2 and len(self.vals) >= 2 and len(self.oplog) >= 2
        if self.aspect == "C07":
            nt = nt and self.entry_set_changed
        if self.aspect == "C15":
            nt = nt and (self.tie_seen or self.common_changed)
        ctx.evaluation(case_hash([(op, sorted(kw.items(), key=lambda kv: kv[0])) for op, kw in self.oplog]), nt,
                       n=max(1, len(self.oplog)))
        ctx.count("histories")
        if ctx.counters["histories"] % 211 == 1:
            ctx.sample({"hseed": self.hseed, "ops": [op for op, _ in self.oplog],
                        "first_model": self.pool[0].m if self.pool else None})

    def step(self):
        rng = self.rng
        ops = [("shift_common", 3), ("shift_common_v", 3), ("append", 4), ("update", 4), ("filtered", 3),
               ("sliced", 3), ("slices1d", 1), ("reindexed", 3), ("reindexed_default", 1), ("collapsed", 3),
               ("copy", 1), ("column_stack", 2), ("set_update", 2), ("observe", 2), ("indx", 1), ("fresh", 1),
               ("from_array_opts", 2), ("set_update_inplace", 2)]
        only = self.profile.get("ops")
        if only:
            ops = [(o, w) for o, w in ops if o in only]
        for _ in range(20):
            op = gen.wpick(rng, ops)
            if getattr(self, "op_" + op)():
                return

    # ---- operations (return False when not applicable to the pool) ----- #
    def op_fresh(self):
        self.add(self.fresh())
        return True

    def op_from_array_opts(self):
        """Construction from an array with every option (common given / absent / omitted, counts,
        mapping incl. many-to-one), also on inputs shaped to select the row-scan strategy."""
        from catii import iindex

        rng = self.rng
        rowscan = rng.random() < 0.4
        vals = list(self.vals)
        if rowscan:
            while len(vals) < 6:
                vals.append(max(vals) + 1)
            n = int(gen.pick(rng, [100, 200, 400]))
            dist = gen.pick(rng, ["sparse", "verysparse"])
        else:
            n = int(gen.pick(rng, [0, 1, 3, 8, 13]))
            dist = gen.pick(rng, gen.DIST_CLASSES)
        ndim = int(rng.integers(1, 3))
        shape = (n,) if ndim == 1 else (n, int(rng.integers(1, 4)))
        m = gen.draw_values(rng, int(numpy.prod(shape)), vals, dist).astype(I64).reshape(shape)
        present = [int(v) for v in numpy.unique(m).tolist()] if m.size else []
        kw = {}
        ccls = gen.pick(rng, ["omitted", "present", "absent"])
        if not present:
            ccls = "absent"
        if ccls == "present":
            kw["common"] = int(gen.pick(rng, present))
        elif ccls == "absent":
            kw["common"] = int(max(vals) + 7)
        domain = list(dict.fromkeys(present + ([kw["common"]] if "common" in kw else [])))
        mcls = gen.pick(rng, ["none", "none", "shift", "permute", "many_to_one", "into_common"])
        mp = None
        if mcls != "none" and domain:
            if mcls == "shift":
                mp = {v: v + 2 for v in domain}
            elif mcls == "permute":
                q = list(domain)
                rng.shuffle(q)
                mp = dict(zip(domain, [int(v) for v in q]))
            else:
                mp = {v: v for v in domain}
                if len(domain) >= 2:
                    if mcls == "into_common" and m.size:
                        u, c = numpy.unique(m, return_counts=True)
                        top = kw.get("common", int(u[int(numpy.argmax(c))]))
                        others = [v for v in domain if v != top]
                        mp[int(gen.pick(rng, others))] = mp[top]
                    else:
                        a, b = [domain[int(i)] for i in rng.choice(len(domain), size=2, replace=False)]
                        mp[a] = mp[b]
            kw["mapping"] = dict(mp)
        if rng.random() < 0.4:
            if m.size:
                u, c = numpy.unique(m, return_counts=True)
                kw["counts"] = dict(zip([int(x) for x in u.tolist()], [int(x) for x in c.tolist()]))
            else:
                kw["counts"] = {}
        kw_call = dict(kw)
        if rng.random() < 0.25:
            # counts and mapping put together from NumPy arrays (dict(zip(*numpy.unique(a, return_counts=True)))):
            # keys and values are NumPy scalars
            if "counts" in kw_call:
                kw_call["counts"] = {numpy.int64(k): numpy.int64(v) for k, v in kw_call["counts"].items()}
            if "mapping" in kw_call:
                kw_call["mapping"] = {numpy.int64(k): numpy.int64(v) for k, v in kw_call["mapping"].items()}
            self.ctx.count("from_array:counts/mapping_of_numpy_scalars")
        np_common = "common" in kw and rng.random() < 0.3
        if np_common:
            # "a value of the same type as the given values": an element of the array itself (a.max(), a[0])
            kw_call["common"] = numpy.int64(kw["common"])
            self.ctx.count("from_array:common_given_as_numpy_scalar")
        self.log("from_array", shape=shape, common=ccls, mapping=mcls, counts="counts" in kw, rowscan_shape=rowscan,
                 numpy_scalar_common=bool(np_common))
        x = iindex.from_array(m.copy(), **kw_call)
        model = m if mp is None else numpy.array([mp[int(v)] for v in m.ravel().tolist()], dtype=I64).reshape(m.shape)
        live = Live(x, model, "from_array")
        self.entry_set_changed = True
        self.add(live)
        self.after_step([live], normalised=[live] if ccls == "omitted" else [])
        if rng.random() < 0.5 and m.size:
            # the caller goes on using the same counts / mapping objects for a second construction,
            # leaving the common value to the library
            kw2 = {k: v for k, v in kw.items() if k != "common"}
            self.log("from_array", shape=shape, common="omitted", mapping=mcls, counts="counts" in kw, reused_options=True)
            x2 = iindex.from_array(m.copy(), **kw2)
            live2 = Live(x2, model.copy(), "from_array")
            self.add(live2)
            self.after_step([live2], normalised=[live2])
            self.ctx.count("from_array:options_reused")
        return True

    def op_shift_common(self):
        r = self.choose()
        if r is None:
            return False
        old = r.x.common
        self.log("shift_common")
        r.x.shift_common()
        if r.x.common != old:
            self.common_changed = True
            self.entry_set_changed = True
        self.after_step([r], normalised=[r])
        return True

    def op_shift_common_v(self):
        r = self.choose()
        if r is None:
            return False
        present = numpy.unique(r.m).tolist() if r.m.size else []
        cand = present + [v for v in self.vals if v not in present] + [max(self.vals) + 2]
        other = [c for c in cand if c != r.x.common]
        v = int(gen.pick(self.rng, other if other and self.rng.random() < 0.85 else cand))
        as_np = bool(self.rng.random() < 0.2)
        self.log("shift_common_v", v=v, present=v in present, numpy_scalar=as_np)
        r.x.shift_common(numpy.int64(v) if as_np else v)
        self.entry_set_changed = True
        self.after_step([r])
        if r.x.common != v:
            self.violation("shift_common_v:common", "shift_common(%r) left common %r" % (v, r.x.common))
        return True

    def op_append(self):
        rng = self.rng
        r = self.choose(lambda l: l.m.ndim <= 2)
        if r is None:
            return False
        trailing = r.m.shape[1:]
        o = None
        if rng.random() < 0.4:
            o = self.choose(lambda l: l is not r and l.m.shape[1:] == trailing)
        if o is None:
            n = gen.pick(rng, self.profile.get("append_rows") or [0, 0, 1, 2, 3, 6])
            o = self.fresh(ndim=r.m.ndim, n=n, trailing=trailing, via="constructor")
        snap = monitors.snapshot(o.x)
        before_common = r.x.common
        self.log("append", other_rows=int(o.m.shape[0]), other_common=o.x.common,
                 other_common_rows=int((o.m == o.x.common).sum()), same_common=o.x.common == r.x.common)
        r.x.append(o.x)
        r.m = numpy.concatenate([r.m, o.m])
        self.entry_set_changed = True
        if r.x.common != before_common:
            self.common_changed = True
        self.unchanged(snap, o.x, "append")
        self.after_step([r], normalised=[r])
        return True

    def op_update(self):
        rng = self.rng
        r = self.choose(lambda l: l.m.ndim <= 2 and l.m.size > 0)
        if r is None:
            return False
        m = r.m
        ncell = int(rng.integers(1, max(2, min(m.size, 6)) + 1))
        flat = rng.choice(m.size, size=min(ncell, m.size), replace=False)
        cells = [tuple(int(i) for i in numpy.unravel_index(int(f), m.shape)) for f in flat]
        cand = list(dict.fromkeys(self.vals + [r.x.common, max(self.vals) + 1]))
        groups = {}
        for cell in cells:
            v = int(gen.pick(rng, cand)) if rng.random() < 0.7 else int(r.x.common)
            groups.setdefault((v,) + cell[1:], []).append(cell[0])
        entries = {k: numpy.array(sorted(rows), dtype=U32) for k, rows in groups.items()}
        snap = monitors.snapshot(entries)
        self.log("update", entries={k: v.tolist() for k, v in entries.items()},
                 sets_common=any(k[0] == r.x.common for k in entries))
        r.x.update(entries)
        for k, rows in entries.items():
            r.m[(rows.astype(numpy.intp),) + tuple(k[1:])] = k[0]
        self.entry_set_changed = True
        self.unchanged(snap, entries, "update")
        self.after_step([r])
        return True

    def op_filtered(self):
        rng = self.rng
        r = self.choose()
        if r is None:
            return False
        n = r.m.shape[0]
        mode = gen.wpick(rng, [("some", 5), ("all", 1), ("none", 1)])
        mask = rng.random(n) < rng.uniform(0.2, 0.8) if mode == "some" else numpy.full(n, mode == "all")
        snap = monitors.snapshot(r.x)
        msnap = mask.copy()
        self.log("filtered", mask=mask.astype(int).tolist())
        res = r.x.filtered(mask, int(mask.sum()))
        live = Live(res, r.m[mask], "filtered")
        self.unchanged(snap, r.x, "filtered(receiver)")
        if not numpy.array_equal(mask, msnap):
            self.violation("operand-mutated:filtered-mask", "filtered changed its mask argument")
        if live.x.common != r.x.common:
            self.common_changed = True
        self.entry_set_changed = True
        self.add(live)
        self.after_step([live, r], normalised=[live])
        if mode == "some" and n >= 2 and rng.random() < 0.3:
            # the caller's mask array is re-used: shuffled IN PLACE (same object, same length, as many rows kept) and
            # applied again - to the same index or to another one of the same length
            rng.shuffle(mask)
            r2 = r
            if rng.random() < 0.4:
                r2 = self.choose(lambda l: l.m.ndim <= 2 and l.m.shape[0] == n) or r
            self.log("filtered_again_with_the_mask_object_shuffled_in_place", mask=mask.astype(int).tolist())
            res2 = r2.x.filtered(mask, int(mask.sum()))
            live2 = Live(res2, r2.m[mask], "filtered")
            self.ctx.count("filtered:mask_object_reused_after_in_place_change")
            self.add(live2)
            self.after_step([live2, r2], normalised=[live2], what="filtered (mask object re-used after an in-place change)")
        return True

    def op_sliced(self):
        rng = self.rng
        r = self.choose(lambda l: l.m.ndim >= 2)
        if r is None:
            return False
        orders, index = [], [slice(None)]
        for e in r.m.shape[1:]:
            kind = gen.wpick(rng, [("int", 3), ("list", 4), ("none", 2)])
            if kind == "int":
                j = int(rng.integers(0, e))
                orders.append(j)
                index.append(j)
            elif kind == "list":
                k = int(rng.integers(1, e + 1))
                lst = [int(i) for i in rng.choice(e, size=k, replace=False)]
                orders.append(lst)
                index.append(lst)
            else:
                orders.append(None)
                index.append(slice(None))
        def model(orders):
            # NumPy model: successive column selection, axis by axis (avoids fancy-index broadcasting)
            mm = r.m
            axis = 1
            for o in orders:
                if isinstance(o, int):
                    mm = numpy.take(mm, o, axis=axis)
                elif o is None:
                    axis += 1
                else:
                    mm = numpy.take(mm, o, axis=axis)
                    axis += 1
            return mm.copy()

        snap = monitors.snapshot(r.x)
        self.log("sliced", orders=orders)
        res = r.x.sliced(*orders)
        live = Live(res, model(orders), "sliced")
        self.unchanged(snap, r.x, "sliced(receiver)")
        self.entry_set_changed = True
        self.add(live)
        self.after_step([live])
        lists = [o for o in orders if isinstance(o, list) and len(o) >= 2]
        if lists and rng.random() < 0.4:
            # the caller's order lists are re-used: changed IN PLACE (same objects, same lengths) and passed again
            for o in lists:
                o.reverse() if rng.random() < 0.5 else o.append(o.pop(0))
            self.log("sliced_again_with_the_order_lists_changed_in_place", orders=orders)
            res2 = r.x.sliced(*orders)
            live2 = Live(res2, model(orders), "sliced")
            self.ctx.count("sliced:order_lists_reused_after_in_place_change")
            self.add(live2)
            self.after_step([live2], what="sliced (order lists re-used after an in-place change)")
        return True

    def op_slices1d(self):
        r = self.choose(lambda l: l.m.ndim >= 2)
        if r is None:
            return False
        snap = monitors.snapshot(r.x)
        self.log("slices1d", shape=r.m.shape)
        got = list(r.x.slices1d())
        self.unchanged(snap, r.x, "slices1d(receiver)")
        expected = set(numpy.ndindex(*r.m.shape[1:]))
        labels = [tuple(c) for c, _ in got]
        if sorted(labels) != sorted(expected):
            if self.aspect == "C06":
                self.violation("slices1d:labels", "slices1d yielded labels %r, expected each of %r once"
                               % (labels[:12], sorted(expected)[:12]))
            raise Stop()
        lives = []
        for coords, s in got:
            lives.append(Live(s, r.m[(slice(None),) + tuple(coords)].copy(), "slices1d"))
        self.after_step(lives, what="slices1d")
        if lives and r.m.ndim == 2 and self.rng.random() < 0.6:
            # the yielded slices are kept and ONE of them is changed in place: its siblings must not move
            k = int(self.rng.integers(0, len(lives)))
            victim = lives[k]
            if self.rng.random() < 0.5:
                others = [v for v in self.vals if v != victim.x.common] or [int(victim.x.common) + 1]
                v = int(gen.pick(self.rng, others))
                self.log("slices1d_then_shift_one", k=k, v=v)
                victim.x.shift_common(v)
            else:
                extra = numpy.array([int(gen.pick(self.rng, self.vals)) for _ in range(int(self.rng.integers(1, 4)))], dtype=I64)
                self.log("slices1d_then_append_to_one", k=k, extra=extra.tolist())
                victim.x.append(gen.dense_to_index(extra, int(victim.x.common)))
                victim.m = numpy.concatenate([victim.m, extra])
            self.ctx.count("slices1d:one_slice_changed_in_place")
            self.after_step(lives, what="slices1d then in-place change of one slice")
        for i in ([int(x) for x in self.rng.permutation(len(lives))[:3]] if lives else []):
            self.add(lives[i])
        return True

    def make_mapping(self, r, kind):
        rng = self.rng
        present = [int(v) for v in numpy.unique(r.m).tolist()] if r.m.size else []
        domain = list(dict.fromkeys(present + [int(r.x.common)]))
        if kind == "shift":
            return {v: v + 1 for v in domain}
        if kind == "permute":
            p = list(domain)
            rng.shuffle(p)
            return dict(zip(domain, [int(v) for v in p]))
        if kind == "many_to_one":
            mp = {v: v for v in domain}
            if len(domain) >= 2:
                a, b = [domain[int(i)] for i in rng.choice(len(domain), size=2, replace=False)]
                mp[a] = mp[b]
            return mp
        if kind == "onto_common":
            mp = {v: v for v in domain}
            others = [v for v in domain if v != r.x.common]
            if others:
                mp[int(gen.pick(rng, others))] = int(r.x.common)
            return mp
        if kind == "all_to_one":
            return {v: 9 for v in domain}
        if kind == "partial":
            mp = {}
            for v in domain:
                if rng.random() < 0.5:
                    mp[v] = int(gen.pick(rng, self.vals + [max(self.vals) + 1]))
            return mp
        if kind == "negative":
            return {v: -v - 2 for v in domain}
        raise ValueError(kind)

    def op_reindexed(self):
        rng = self.rng
        r = self.choose(lambda l: l.m.ndim <= 2)
        if r is None:
            return False
        kind = gen.pick(rng, ["shift", "permute", "many_to_one", "onto_common", "all_to_one", "partial", "negative"])
        mp = self.make_mapping(r, kind)
        copy = bool(rng.random() < 0.6)
        shift = bool(rng.random() < 0.7)
        au = bool(rng.random() < 0.3)
        snap = monitors.snapshot(r.x)
        msnap = dict(mp)
        self.log("reindexed", mapping=dict(mp), kind=kind, copy=copy, shift=shift, assume_unique=au)
        arg = dict(mp) if rng.random() < 0.5 else mp
        if rng.random() < 0.2:
            # a mapping zipped together from NumPy arrays: keys and values are NumPy scalars
            arg = {numpy.int64(k): numpy.int64(v) for k, v in mp.items()}
            self.ctx.count("reindexed:mapping_of_numpy_scalars")
        if rng.random() < 0.15:
            # a dict subclass with a default factory: values it does not mention still keep their value (the
            # documented rule reads them with .get) and the mapping itself must come back unchanged
            import collections

            arg = collections.defaultdict(int, mp)
            self.ctx.count("reindexed:mapping_is_a_defaultdict")
        argsnap = dict(arg)
        res = r.x.reindexed(arg, copy=copy, shift=shift, assume_unique=au)
        if dict(arg) != argsnap:
            self.violation("operand-mutated:reindexed-mapping-object",
                           "reindexed changed the mapping object it was given: %r -> %r" % (sorted(argsnap.items())[:6], sorted(dict(arg).items())[:8]))
        mm = numpy.array([mp.get(int(v), int(v)) for v in r.m.ravel().tolist()], dtype=I64).reshape(r.m.shape)
        live = Live(res, mm, "reindexed")
        self.unchanged(snap, r.x, "reindexed(receiver)")
        if mp != msnap:
            self.violation("operand-mutated:reindexed-mapping", "reindexed changed its mapping argument")
        if copy:
            self.no_sharing(res, r.x, "reindexed(copy=True)")
        self.entry_set_changed = True
        self.add(live)
        self.after_step([live])
        return True

    def op_reindexed_default(self):
        r = self.choose(lambda l: l.m.ndim <= 2)
        if r is None:
            return False
        # listed values = values that have entries = values present other than the common
        present = [int(v) for v in numpy.unique(r.m).tolist()] if r.m.size else []
        listed = sorted(v for v in present if v != r.x.common)
        rank = {v: i for i, v in enumerate(listed)}
        snap = monitors.snapshot(r.x)
        self.log("reindexed_default", listed=listed, common=r.x.common)
        res = r.x.reindexed()
        mm = numpy.array([rank.get(int(v), int(v)) for v in r.m.ravel().tolist()], dtype=I64).reshape(r.m.shape)
        # the common value stays as it is
        mm[r.m == r.x.common] = r.x.common
        live = Live(res, mm, "reindexed_default")
        self.unchanged(snap, r.x, "reindexed()(receiver)")
        self.no_sharing(res, r.x, "reindexed() (copy defaults to True)")
        self.entry_set_changed = True
        self.add(live)
        self.after_step([live])
        return True

    def op_collapsed(self):
        rng = self.rng
        r = self.choose(lambda l: l.m.ndim == 2)
        if r is None:
            return False
        present = [int(v) for v in numpy.unique(r.m).tolist()] if r.m.size else []
        mp = None
        if rng.random() < 0.25 and present:
            mp = self.make_mapping(r, gen.pick(rng, ["shift", "many_to_one", "partial", "negative"]))
        mapped = lambda v: mp.get(v, v) if mp is not None else v
        universe = list(dict.fromkeys([mapped(v) for v in present] + [mapped(int(r.x.common))] + self.vals + [-2, max(self.vals) + 3]))
        k = int(rng.integers(1, len(universe) + 1))
        prec = [int(universe[int(i)]) for i in rng.choice(len(universe), size=k, replace=False)]
        if mp is not None and rng.random() < 0.5:
            mp.pop(int(r.x.common), None)       # a mapping that does not mention the common value
            mapped = lambda v: mp.get(v, v)
        snap = monitors.snapshot(r.x)
        psnap = list(prec)
        mpsnap = None if mp is None else dict(mp)
        self.log("collapsed", precedence=prec, mapping=mp, omits_present=any(mapped(v) not in prec for v in present),
                 has_negative=any(p < 0 for p in prec))
        res = r.x.collapsed(prec, mp) if mp is not None else r.x.collapsed(prec)
        mmapped = numpy.array([mapped(int(v)) for v in r.m.ravel().tolist()], dtype=I64).reshape(r.m.shape)
        out = numpy.full(r.m.shape[0], prec[-1], dtype=I64)
        for row in range(r.m.shape[0]):
            rowvals = set(mmapped[row].tolist())
            for p in prec:
                if p in rowvals:
                    out[row] = p
                    break
        live = Live(res, out, "collapsed")
        self.unchanged(snap, r.x, "collapsed(receiver)")
        if prec != psnap:
            self.violation("operand-mutated:collapsed-precedence", "collapsed changed its precedence list")
        if mp is not None and mp != mpsnap and self.aspect == "C06":
            self.violation("operand-mutated:collapsed-mapping", "collapsed changed its mapping argument: %r -> %r" % (mpsnap, mp))
        self.entry_set_changed = True
        self.common_changed = True
        self.add(live)
        self.after_step([live], normalised=[live] if out.size else [])
        return True

    def op_copy(self):
        r = self.choose()
        if r is None:
            return False
        snap = monitors.snapshot(r.x)
        self.log("copy")
        res = r.x.copy()
        live = Live(res, r.m.copy(), "copy")
        self.unchanged(snap, r.x, "copy(receiver)")
        self.no_sharing(res, r.x, "copy()")
        self.add(live)
        self.after_step([live])
        return True

    def op_column_stack(self):
        rng = self.rng
        from catii.iindexes import column_stack

        r = self.choose(lambda l: l.m.ndim <= 2)
        if r is None:
            return False
        n = r.m.shape[0]
        parts = [r]
        for _ in range(int(rng.integers(0, 3))):
            o = self.choose(lambda l: l.m.ndim <= 2 and l.m.shape[0] == n) if rng.random() < 0.5 else None
            if o is None:
                nd = int(rng.integers(1, 3))
                o = self.fresh(ndim=nd, n=n, via="constructor")
            parts.append(o)
        nc = None
        if rng.random() < 0.5:
            nc = int(gen.pick(rng, self.vals + [max(self.vals) + 1]))
        copy = bool(rng.random() < 0.5)
        snaps = [monitors.snapshot(p.x) for p in parts]
        self.log("column_stack", ndims=[p.m.ndim for p in parts], commons=[p.x.common for p in parts],
                 new_common=nc, copy=copy)
        res = column_stack([p.x for p in parts], new_common=nc, copy=copy)
        mm = numpy.column_stack([p.m for p in parts]) if n or True else None
        live = Live(res, mm.astype(I64), "column_stack")
        for s, p in zip(snaps, parts):
            self.unchanged(s, p.x, "column_stack(input)")
        if copy:
            for p in parts:
                self.no_sharing(res, p.x, "column_stack(copy=True)")
        if nc is not None and res.common != nc:
            self.violation("column_stack:new_common", "column_stack(new_common=%r) returned common %r" % (nc, res.common))
        self.entry_set_changed = True
        self.add(live)
        self.after_step([live])
        return True

    def op_set_update(self):
        """Entry-wise set algebra on scratch copies (not dense semantics)."""
        rng = self.rng
        r = self.choose()
        if r is None:
            return False
        o = self.choose(lambda l: l is not r and l.m.ndim == r.m.ndim)
        a = r.x.copy()
        long_entries = rng.random() < 0.2
        if long_entries:
            # a receiver with long entries (hundreds of row ids per key) and an operand whose row ids are drawn from
            # the receiver's own lists at any position - first, late, last - plus some new ones
            nn = int(gen.pick(rng, [150, 400, 1500]))
            dd = rng.integers(0, 3, size=nn)
            if rng.random() < 0.5:
                dd[: nn // 2] = 1                      # one unbroken run
            a = gen.dense_to_index(dd, 0)
            o = None
            self.ctx.count("set_update:receiver_with_long_entries")
        if o is not None and rng.random() < 0.6:
            other = o.x.copy() if rng.random() < 0.5 else {k: v.copy() for k, v in dict.items(o.x)}
        else:
            other = {}
            keys = list(dict.keys(a))
            for k in keys:
                if rng.random() < 0.6:
                    n = max(1, a.shape[0])
                    rows = numpy.unique(rng.integers(0, n, size=int(rng.integers(0, 5)))).astype(U32)
                    own = dict.__getitem__(a, k)
                    if len(own) and rng.random() < (0.9 if long_entries else 0.4):
                        lo = int(rng.integers(0, len(own)))
                        mine = own[lo:: max(1, int(rng.integers(1, 40)))][: int(rng.integers(1, 4))]
                        rows = numpy.unique(numpy.concatenate([rows[rows > mine[0]] if rng.random() < 0.7 else rows, mine])).astype(U32)
                        self.ctx.count("set_update:operand_shares_rows_with_the_receiver")
                    other[k] = rows if rng.random() < 0.85 else None
            if rng.random() < 0.5:
                other[(max(self.vals) + 5,) + tuple(0 for _ in a.shape[1:])] = numpy.array([0], dtype=U32)
        which = gen.pick(rng, ["union_update", "intersection_update", "difference_update"])
        before = {k: set(v.tolist()) for k, v in dict.items(a)}
        oth = {k: (None if v is None else set(numpy.asarray(v).tolist())) for k, v in dict.items(other)}
        osnap = monitors.snapshot(other)
        self.log("set_update", which=which, other_keys=len(oth))
        getattr(a, which)(other)
        exp = {}
        if which == "union_update":
            exp = {k: set(v) for k, v in before.items()}
            for k, s in oth.items():
                if s is None:
                    continue
                exp[k] = exp.get(k, set()) | s
        elif which == "intersection_update":
            for k, v in before.items():
                if k in oth:
                    exp[k] = v if oth[k] is None else v & oth[k]
        else:
            exp = {k: set(v) for k, v in before.items()}
            for k, s in oth.items():
                if s is None:
                    continue
                if k in exp:
                    exp[k] = exp[k] - s
        exp = {k: v for k, v in exp.items() if v}
        if self.aspect == "C06":
            got = {}
            for k, v in dict.items(a):
                if not isinstance(v, numpy.ndarray) or v.dtype != U32 or (len(v) > 1 and not numpy.all(v[1:] > v[:-1])):
                    self.violation("set_update:not-sorted-uint32:" + which, "%s left entry %r = %r" % (which, k, v))
                got[k] = set(v.tolist())
            if got != exp:
                diff = [k for k in set(got) | set(exp) if got.get(k) != exp.get(k)]
                self.violation("set_update:wrong:" + which, "%s: entries differ at %r: got %r expected %r"
                               % (which, diff[:3], [sorted(got.get(k, [])) for k in diff[:3]],
                                  [sorted(exp.get(k, [])) for k in diff[:3]]))
            self.unchanged(osnap, other, which + "(other)")
        elif self.aspect == "C07":
            # (entry-wise algebra with an arbitrary operand may list a row under two values - the operand said so; what
            # each entry must still be is a non-empty, strictly increasing uint32 list)
            for k, v in dict.items(a):
                if not isinstance(v, numpy.ndarray) or v.dtype != U32 or v.ndim != 1 or len(v) == 0 or \
                        (len(v) > 1 and not numpy.all(v[1:] > v[:-1])):
                    self.violation("ill-formed:set_update:" + which,
                                   "%s left entry %r = %r (not a non-empty strictly increasing uint32 list)" % (which, k, v[:12] if hasattr(v, "__len__") else v))
                    break
            self.ctx.count("set_update:entries_checked_for_form")
        self.ctx.count("set_update:checked")
        return True

    def op_set_update_inplace(self):
        """Entry-wise set updates applied to a LIVE index, in the forms that have dense semantics:
        difference / intersection turn cells into the common value, union fills cells that hold the
        common value."""
        rng = self.rng
        r = self.choose(lambda l: l.m.ndim <= 2 and l.m.size > 0)
        if r is None:
            return False
        x, m = r.x, r.m
        which = gen.pick(rng, ["difference_update", "intersection_update", "union_update"])
        other = {}
        keys = list(dict.keys(x))
        if which == "difference_update":
            for k in keys:
                if rng.random() < 0.6:
                    rows = dict.__getitem__(x, k)
                    sel = rows[rng.random(len(rows)) < 0.5]
                    extra = numpy.setdiff1d(numpy.unique(rng.integers(0, m.shape[0], size=int(rng.integers(0, 3)))), rows).astype(U32)
                    other[k] = numpy.union1d(sel, extra).astype(U32)       # rows not listed under k are ignored
                    m[(sel.astype(numpy.intp),) + tuple(k[1:])] = x.common
        elif which == "intersection_update":
            for k in keys:
                rows = dict.__getitem__(x, k)
                if rng.random() < 0.7:
                    keep = rows[rng.random(len(rows)) < 0.6]
                    extra = numpy.setdiff1d(numpy.unique(rng.integers(0, m.shape[0], size=int(rng.integers(0, 3)))), rows).astype(U32)
                    other[k] = numpy.union1d(keep, extra).astype(U32)
                    drop = numpy.setdiff1d(rows, keep)
                else:
                    drop = rows                                            # key absent from other: entry deleted
                m[(drop.astype(numpy.intp),) + tuple(k[1:])] = x.common
        else:
            cols = [()] if m.ndim == 1 else [(c,) for c in range(m.shape[1])]
            for pos in cols:
                free = rows_where(m, x.common, pos)
                if len(free) and rng.random() < 0.8:
                    sel = numpy.sort(rng.choice(free, size=int(rng.integers(1, min(len(free), 4) + 1)), replace=False))
                    v = int(gen.pick(rng, [u for u in self.vals + [max(self.vals) + 1] if u != x.common]))
                    already = dict.get(x, (v,) + pos)
                    other[(v,) + pos] = sel.astype(U32)
                    m[(sel.astype(numpy.intp),) + pos] = v
        snap = monitors.snapshot(other)
        self.log("set_update_inplace", which=which, keys=len(other))
        getattr(x, which)(other)
        self.entry_set_changed = True
        self.unchanged(snap, other, which + "(other)")
        self.after_step([r])
        return True

    def op_observe(self):
        rng = self.rng
        r = self.choose(lambda l: l.m.ndim <= 2)
        if r is None:
            return False
        x, m = r.x, r.m
        snap = monitors.snapshot(x)
        self.log("observe")
        if self.aspect != "C06":
            return True
        cols = [()] if m.ndim == 1 else [(c,) for c in range(m.shape[1])]
        # common_rowids
        for pos in cols:
            got = x.common_rowids(*pos)
            exp = rows_where(m, x.common, pos)
            if not isinstance(got, numpy.ndarray) or got.tolist() != exp.tolist():
                self.violation("observe:common_rowids", "common_rowids%r = %r, model %r" % (pos, got, exp.tolist()))
        # get
        probe_vals = list(dict.fromkeys(self.vals + [x.common, max(self.vals) + 1]))
        for pos in cols:
            for v in probe_vals:
                exp = rows_where(m, v, pos).tolist()
                for force in (False, True):
                    got = x.get((v,) + pos, None, force) if force else x.get((v,) + pos)
                    if v == x.common and not force:
                        want = None
                    else:
                        want = exp if exp else None
                    g = None if got is None else got.tolist()
                    if g != want:
                        self.violation("observe:get", "get(%r, force=%r) = %r, model %r" % ((v,) + pos, force, g, want))
        # items(force=True) / to_dict(force=True)
        pairs = list(x.items(True))
        seen = {}
        for k, v in pairs:
            if k in seen:
                self.violation("observe:items-duplicate", "items(force=True) yielded %r twice" % (k,))
            seen[k] = v.tolist()
        exp = {}
        for pos in cols:
            for v in (numpy.unique(m[(slice(None),) + pos]).tolist() if m.size else []):
                if v != x.common:
                    exp[(int(v),) + pos] = rows_where(m, v, pos).tolist()
            exp[(x.common,) + pos] = rows_where(m, x.common, pos).tolist()
        if seen != exp:
            diff = [k for k in set(seen) | set(exp) if seen.get(k) != exp.get(k)]
            self.violation("observe:items", "items(force=True) differs from the model at %r" % (diff[:4],))
        td = x.to_dict(force=True)
        if td != exp:
            self.violation("observe:to_dict", "to_dict(force=True) differs from the model")
        self.unchanged(snap, x, "observation")
        self.ctx.count("observe:checked")
        return True

    def op_indx(self):
        r = self.choose(lambda l: l.m.ndim <= 2 and (not l.m.size or l.m.min() >= 0) and l.x.common >= 0)
        if r is None:
            return False
        from catii import iindex
        from catii.indxio import IndxIO

        snap = monitors.snapshot(r.x)
        self.log("indx_save_load")
        with tempfile.TemporaryFile(dir="/dev/shm" if os.access("/dev/shm", os.W_OK) else None) as f:
            IndxIO.save(f, r.x, r.x.common, numpy.dtype(U32))
            f.seek(0)
            entries, common, _ = IndxIO.load(f)
            if self.rng.random() < 0.5:
                entries = {k: numpy.array(v) for k, v in entries.items()}  # detach from the mmap
            else:
                # keep what the loader returned: read-only arrays backed by the file mapping go on living in
                # the pool and take part in every later operation
                self.ctx.count("indx:loaded_arrays_kept(read-only, file-backed)")
        if len(r.x) == 0 and len(r.m.shape) > 1:
            pass  # arity cannot be stored with no entries; keys are empty anyway
        res = iindex(entries, common, r.x.shape)
        live = Live(res, r.m.copy(), "indx")
        self.unchanged(snap, r.x, "INDX save")
        self.add(live)
        self.after_step([live])
        return True


def run_histories(ctx, aspect, n, min_steps=1, max_steps=15, profile=None, base=None):
    rng = ctx.rng
    for i in range(n):
        hseed = int(rng.integers(0, 2 ** 62)) if base is None else base + i
        nsteps = int(rng.integers(min_steps, max_steps + 1))
        h = History(ctx, aspect, hseed, nsteps, profile)
        run_one(ctx, h)
        if ctx.full():
            return


def run_one(ctx, h):
    """Run a history; a library exception is a violation of the aspect's property
    ('or raises'), a harness exception propagates."""
    from .worker import blame
    import traceback

    try:
        h.run()
    except Stop:
        pass
    except Exception as e:
        where, site = blame(e)
        if where != "library":
            raise
        op = h.oplog[-1][0] if h.oplog else "init"
        case = dict(h.case)
        case["oplog"] = [(o, {k: (v if not isinstance(v, numpy.ndarray) else v.tolist()) for k, v in kw.items()})
                         for o, kw in h.oplog]
        ctx.violation("raises:%s@%s:%s" % (type(e).__name__, site, op),
                      "library raised %s during %s: %s\n%s" % (type(e).__name__, op, e, traceback.format_exc()[-1200:]),
                      case)
        ctx.evaluation(case_hash(repr(h.oplog)), False, n=max(1, len(h.oplog)))


def replay(ctx, aspect, case):
    h = History(ctx, aspect, int(case["hseed"]), int(case["nsteps"]), case.get("profile"))
    run_one(ctx, h)


# --------------------------------------------------------------------------- #
# Row counts at the edge of what 32-bit row ids can address.  The dense model cannot hold four
# billion rows, so these few scenarios keep a sparse model {(row, column): value} of the cells that
# differ from the common value.
ROW_LIMIT = 2 ** 32


def giant_append_cases(rng, n):
    for i in range(n):
        d = int(gen.pick(rng, [1, 2, 5, 25, 300]))
        k = int(gen.pick(rng, [1, 2, 7, 30, 300]))
        if i % 3 == 0:
            k = d                                     # exactly fills the last addressable row
        elif i % 3 == 1 and k <= d:
            k = d + int(gen.pick(rng, [1, 2, 9]))     # crosses the limit
        ncols = int(gen.pick(rng, [0, 0, 2]))         # 0: a 1-D index
        yield {"kind": "giant_append", "rows": ROW_LIMIT - d, "k": k, "ncols": ncols,
               "same_common": bool(rng.random() < 0.5), "gseed": int(rng.integers(0, 2 ** 31))}


def giant_append(ctx, aspect, case):
    """append() onto an index of just under 2^32 rows: below the limit the result must be right; beyond it the
    operation must refuse or still give a right result - never wrap row ids around."""
    from catii import iindex
    from .worker import blame

    rng = numpy.random.default_rng(case["gseed"])
    R, k, ncols = int(case["rows"]), int(case["k"]), int(case["ncols"])
    cols = [()] if ncols == 0 else [(c,) for c in range(ncols)]
    common = 0
    # the receiver: a handful of listed rows, among them its very last row
    model = {}
    entries = {}
    for col in cols:
        rows = sorted(set([R - 1, 3] + [int(x) for x in rng.integers(0, R, size=2)]))
        for j, r in enumerate(rows):
            v = 1 + (j % 2)
            model[(r,) + col] = v
            entries.setdefault((v,) + col, []).append(r)
    recv = iindex({key: numpy.array(sorted(v), dtype=U32) for key, v in entries.items()}, common, (R,) + ((ncols,) if ncols else ()))
    # the other: k dense rows
    ocommon = common if case["same_common"] else 5
    om = rng.integers(0, 3, size=(k,) + ((ncols,) if ncols else ())).astype(I64)
    if not case["same_common"]:
        om[rng.random(om.shape) < 0.5] = ocommon
    other = gen.dense_to_index(om, ocommon)
    for pos in numpy.ndindex(*om.shape):
        v = int(om[pos])
        if v != common:
            model[(R + pos[0],) + tuple(pos[1:])] = v
    fits = R + k <= ROW_LIMIT
    ctx.count("giant:append_%s" % ("within_2^32_rows" if fits else "beyond_2^32_rows"))
    ctx.evaluation(("giant", R, k, ncols, case["same_common"], case["gseed"]), True)
    try:
        recv.append(other)
    except Exception as e:
        where, site = blame(e)
        if where != "library":
            raise
        if fits:
            ctx.violation("giant-append:raises-within-limit", "append of %d rows onto %d rows (total %d <= 2^32) raised %s: %s"
                          % (k, R, R + k, type(e).__name__, e), case)
            return
        ctx.count("giant:append_beyond_limit_refused")
        # a refused append must leave the receiver as it was: it goes on being used
        before = {key: sorted(v) for key, v in entries.items()}
        now = {key: [int(x) for x in numpy.asarray(v).tolist()] for key, v in dict.items(recv)}
        if tuple(recv.shape) != (R,) + ((ncols,) if ncols else ()) or recv.common != common or now != before:
            diff = sorted(set(map(repr, now.items())) ^ set(map(repr, before.items())))[:3]
            ctx.violation("giant-append:refused-but-receiver-changed",
                          "append of %d rows onto %d rows was refused (%s) but left the receiver changed: shape %r, entries differing %s"
                          % (k, R, type(e).__name__, recv.shape, diff), case)
        return
    # it returned: the result must be well-formed and stand for the concatenation
    shape = (R + k,) + ((ncols,) if ncols else ())
    problems = []
    if tuple(recv.shape) != shape:
        problems.append("shape %r, expected %r" % (recv.shape, shape))
    got = {}
    for key, rowids in dict.items(recv):
        a = numpy.asarray(rowids)
        if a.dtype.kind != "u" or a.ndim != 1 or len(a) == 0:
            problems.append("entry %r is %s array of %d" % (key, a.dtype, a.size))
            continue
        ids = [int(x) for x in a.tolist()]
        if any(y <= x for x, y in zip(ids, ids[1:])):
            problems.append("row ids of entry %r are not strictly increasing: %r" % (key, ids[:6]))
        if ids and ids[-1] >= shape[0]:
            problems.append("entry %r lists row %d of %d" % (key, ids[-1], shape[0]))
        if key[0] == recv.common:
            problems.append("entry %r is listed under the common value" % (key,))
        for r in ids:
            if (r,) + tuple(key[1:]) in got:
                problems.append("row %d listed twice in column %r" % (r, key[1:]))
            got[(r,) + tuple(key[1:])] = int(key[0])
    if aspect == "C07":
        ctx.count("wf:checked")
        if problems:
            ctx.violation("giant-append:ill-formed:" + ("within-limit" if fits else "beyond-limit"),
                          "append of %d rows onto %d rows returned an ill-formed index: %s" % (k, R, "; ".join(problems[:3])), case)
        return
    if problems:
        ctx.count("stopped:ill-formed(blame C07)")
        return
    if recv.common != common:
        ctx.count("giant:common_changed(not judged)")
        return
    if got != model:
        diff = sorted(set(got.items()) ^ set(model.items()))[:4]
        ctx.violation("giant-append:content:" + ("within-limit" if fits else "beyond-limit"),
                      "append of %d rows onto %d rows: the listed cells differ from the concatenation, e.g. %r" % (k, R, diff), case)
