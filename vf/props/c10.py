"""C10 - INDX save then load is the identity.

Oracle: direct comparison with the saved data (common value, key set, key
element types, association, uint32 arrays); for well-formed indexes also the
rebuilt index (== and validate)."""
import numpy

from .. import gen, indx

U32 = numpy.uint32

META = {
    "level": "exploration",
    "rule": ("entries dicts of arity 1-4, 0..5000 entries, largest coordinate and common value drawn independently from the four word-size classes (<=255, <=65535, <2^32, <2^63), row-id arrays of length 0..50 (a few 10^3-10^5) with ids up to 2^32-1, written to real files and loaded back; plus well-formed non-negative indexes built from dense arrays (1-D..3-D); dense runs of exactly 255..65537 ids, arrays tiling one buffer, one 2^22-id array, NumPy-scalar coordinates, every writing open mode, twin files (same size / byte-identical coordinate blocks under another arity), earlier results re-read after the next load. Non-trivial: >=2 entries, >=1 non-empty row-id array, arity >=2 or a word size >1; distinct by content hash"),
    "require": {t: ["class:entries=0", "class:arity=1", "class:arity=4", "class:coord_word=8", "class:common_word=8",
                    "class:common_wider_than_coords", "class:empty_rowids", "class:index_roundtrip",
                    "class:dense_run_of_boundary_length", "class:arrays_tile_one_buffer", "class:numpy_scalar_coordinates",
                    "class:array_of_2^22_row_ids"]
                for t in ("quick", "thorough")},
    "assumptions": ["with no entries the coordinate arity cannot be stored (dimension byte 0); keys are empty anyway"],
}
META["rule"] += '; round 7: the entries handed to save in other containers - an index object carrying a common value of its own (incl. saved common 0), an OrderedDict, a dict subclass with attributes'
for _t in META["require"]:
    META["require"][_t] = list(META["require"][_t]) + ['class:entries_are_an_index_with_its_own_common_value', 'class:entries_are_an_index_with_its_own_common_value,saved_common=0']


def shards(tier):
    if tier == "quick":
        return [{"label": "files%d" % i, "n": 1000} for i in range(14)]
    return [{"label": "files%d" % i, "n": 25000} for i in range(16)]


def cases(ctx):
    rng = ctx.rng
    for i in range(ctx.shard["n"]):
        if i % 5 == 4:
            nd = int(rng.integers(1, 4))
            n = gen.pick(rng, [0, 1, 3, 8, 40])
            shape = (n,) + tuple(int(rng.integers(1, 4)) for _ in range(nd - 1))
            vals = gen.alphabet(rng, gen.pick(rng, ["small", "gapped", "b8", "b16", "b32", "b63"]))
            a = gen.draw_values(rng, int(numpy.prod(shape)), vals, gen.pick(rng, gen.DIST_CLASSES)).reshape(shape)
            common = int(gen.pick(rng, vals + [max(vals) + 1 if max(vals) < 2 ** 63 - 1 else 0]))
            yield {"kind": "index", "dense": a, "common": common}
        elif i % 29 == 3:
            c = indx.run_case(rng)
            c["kind"] = "entries"
            yield c
        elif i % 11 == 6:
            c = indx.tiled_case(rng)
            c["kind"] = "entries"
            yield c
        elif i == 13 and ctx.shard_index == 0:
            c = indx.big_array_case(rng)
            c["kind"] = "entries"
            yield c
        else:
            c = indx.indx_case(rng)
            c["kind"] = "entries"
            c["numpy_scalar_keys"] = bool(rng.random() < 0.12)
            yield c


def twins(ctx, case):
    """Files that look alike from outside, judged straight after the case in the same process: same size under the
    same descriptor number with other content; coordinate blocks that are byte-identical under another arity."""
    if case.get("kind") != "entries" or case.get("twin") or case.get("big_array") or len(case["entries"]) > 400:
        return
    r = ctx.rng.random()
    if r < 0.25:
        t = indx.same_size_twin(case, ctx.rng)
        if t is not None:
            ctx.count("class:twin_file_of_the_same_size")
            yield t
    elif r < 0.33:
        a, b = indx.reinterpreted_twins(ctx.rng)
        ctx.count("class:twin_files_with_byte_identical_coordinate_blocks")
        yield a
        yield b


def judge(ctx, case):
    if case["kind"] == "index":
        return judge_index(ctx, case)
    ent = indx.plain_keys(indx.entries_dict(case))
    if case.get("numpy_scalar_keys"):
        ctx.count("class:numpy_scalar_coordinates")
    if case.get("big_array"):
        ctx.count("class:array_of_2^22_row_ids")
    common = int(case["common"])
    n = len(ent)
    maxc = max([c for k in ent for c in k], default=0)
    ctx.count("class:entries=%s" % (n if n < 3 else ("3-20" if n <= 20 else ">20")))
    ctx.count("class:arity=%d" % case["arity"])
    ctx.count("class:coord_word=%d" % indx.word_class(maxc))
    ctx.count("class:common_word=%d" % indx.word_class(common))
    if indx.word_class(common) > indx.word_class(maxc):
        ctx.count("class:common_wider_than_coords")
    if any(len(v) == 0 for v in ent.values()):
        ctx.count("class:empty_rowids")
    if case.get("run_length"):
        ctx.count("class:dense_run_of_boundary_length")
    if case.get("tiled"):
        ctx.count("class:arrays_tile_one_buffer")
    feat = "arity=%d,cw=%d,kw=%d,n=%s" % (case["arity"], indx.word_class(maxc), indx.word_class(common),
                                          "0" if n == 0 else ("1" if n == 1 else "many"))
    nt = n >= 2 and any(len(v) for v in ent.values()) and (case["arity"] >= 2 or max(indx.word_class(maxc), indx.word_class(common)) > 1)
    ctx.evaluation({"e": [(k, v) for k, v in ent.items()], "c": common}, nt)
    if ctx.evals % 301 == 1:
        ctx.sample({"entries": [(list(k), v) for k, v in list(ent.items())[:4]], "n_entries": n, "common": common})
    container = None
    if ctx.evals % 6 == 0 and not case.get("big_array"):
        # the same entries handed over in another container: an index object that carries a common value of its OWN
        # (what is saved is the entries together with the common value given to save - any entries with any common
        # value), or an ordered / user-defined dict
        import collections
        from catii import iindex

        raw = indx.entries_dict(case)
        form = (ctx.evals // 6) % 4
        if form in (0, 1):
            own = (common + 1 + (ctx.evals // 24) % 3) if form == 0 or common == 0 else 0
            top = max([int(v[-1]) for v in raw.values() if len(v)], default=0)
            extent = tuple(max(k[i] for k in ent) + 1 for i in range(1, case["arity"])) if n else ()
            container = iindex(raw, common=own, shape=(top + 1,) + extent)
            ctx.count("class:entries_are_an_index_with_its_own_common_value")
            if common == 0:
                ctx.count("class:entries_are_an_index_with_its_own_common_value,saved_common=0")
        elif form == 2:
            container = collections.OrderedDict(raw)
            ctx.count("class:entries_are_an_OrderedDict")
        else:
            container = type("Entries", (dict,), {"common": common + 5, "shape": (1,)})(raw)
            ctx.count("class:entries_are_a_dict_subclass_with_attributes")
    data = indx.save_bytes(case, entries=container)
    out, lcommon, dt, info = indx.load_bytes(data)
    ctx.count("earlier_load_rechecked")
    if indx.LATER_CHANGE[0]:
        ctx.violation("earlier-result-changed-by-a-later-load:" + feat, indx.LATER_CHANGE[0], case)
        return
    compare(ctx, case, ent, common, out, lcommon, info, feat)


def compare(ctx, case, ent, common, out, lcommon, info, feat):
    if type(lcommon) is not int or lcommon != common:
        ctx.violation("common:" + feat, "loaded common %r (%s), saved %r" % (lcommon, type(lcommon).__name__, common), case)
        return False
    if set(out) != set(ent):
        miss = [k for k in ent if k not in out][:3]
        extra = [k for k in out if k not in ent][:3]
        ctx.violation("keys:" + feat, "key sets differ: missing %r extra %r" % (miss, extra), case)
        return False
    for k in out:
        if type(k) is not tuple or not all(type(c) is int for c in k):
            ctx.violation("key-types:" + feat, "loaded key %r has element types %r" % (k, [type(c).__name__ for c in k]), case)
            return False
    for k, v in ent.items():
        got = out[k]
        if info[k][1] != "uint32":
            ctx.violation("rowid-dtype:" + feat, "loaded row ids for %r are %s %s" % (k, info[k][0], info[k][1]), case)
            return False
        if got.shape != v.shape or not numpy.array_equal(got, v):
            ctx.violation("rowids:" + feat, "row ids for %r differ: loaded %r saved %r" % (k, got[:8].tolist(), v[:8].tolist()), case)
            return False
    return True


def judge_index(ctx, case):
    from catii import iindex
    from catii.indxio import IndxIO
    import os, tempfile

    a = numpy.asarray(case["dense"])
    idx = gen.dense_to_index(a, case["common"])
    ctx.count("class:index_roundtrip")
    ctx.count("class:index_ndim=%d" % a.ndim)
    nt = len(idx) >= 2 and (a.ndim >= 2 or max([c[0] for c in idx] + [idx.common]) > 255)
    ctx.evaluation({"a": a, "c": case["common"]}, nt)
    feat = "index,ndim=%d" % a.ndim
    fd, p = tempfile.mkstemp(prefix="vf-indx-", dir=indx.TMPDIR)
    os.close(fd)
    try:
        with open(p, "wb") as f:
            IndxIO.save(f, idx, idx.common, numpy.dtype(U32))
        with open(p, "rb") as f:
            entries, common, dt = IndxIO.load(f)
            entries = {k: numpy.array(v) for k, v in entries.items()}
    finally:
        os.unlink(p)
    ent = {k: v for k, v in dict.items(idx)}
    info = {k: (type(v).__name__, str(v.dtype)) for k, v in entries.items()}
    if not compare(ctx, case, ent, idx.common, entries, common, info, feat):
        return
    rebuilt = iindex(entries, common, idx.shape)
    try:
        rebuilt.validate(True)
    except Exception as e:
        ctx.violation("rebuilt-invalid:" + feat, "index rebuilt from the loaded parts fails validate(True): %s" % e, case)
        return
    if not (rebuilt == idx) or not (idx == rebuilt):
        ctx.violation("rebuilt-unequal:" + feat, "index rebuilt from the loaded parts != saved index", case)
        return
    if not numpy.array_equal(gen.index_to_dense(rebuilt), gen.index_to_dense(idx)):
        ctx.violation("rebuilt-dense:" + feat, "rebuilt index has different dense content", case)
