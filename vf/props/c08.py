"""C08 - sorted-set kernels compute exact set algebra.

Oracle: Python set arithmetic.  Workload: exhaustive over all ordered pairs of
subsets of a small universe under several order-preserving embeddings into
uint32; structured random long arrays; the None/copy conventions of the
wrappers; multi-way union; in-situ monitor of every kernel call made by real
cube walks and entry-wise set updates."""
import itertools

import numpy

from .. import kernels as K
from .. import monitors

U32 = numpy.uint32

META = {
    "level": "exploration",
    "rule": ("pairs: all ordered pairs of subsets of a universe of size 7 (quick) / 10 (thorough) under 4 "
             "order-preserving embeddings into uint32 (incl. 0 and 2^32-1), each through 3 kernels and 3 wrappers; "
             "random structured pairs up to 10^5 elements; wrapper None/copy conventions; multi-way union of 0-5 "
             "arrays (also 17-100 arrays, chains); operands as strided / embedded / read-only / reversed / packed-record-field views, "
             "views of one buffer, size-ladder lopsided pairs, buffers refilled in place between calls; 4-12 threads inside the "
             "kernels at once on private operands (overlap counted); in-situ calls from cube walks and set updates. Non-trivial: both operands non-empty and neither "
             "contained in the other (pairs), >=2 non-empty inputs sharing an element (multi-way); distinct by content"),
    "require": {"quick": ["kernel_calls", "wrapper_calls", "many_calls", "insitu_workloads", "many:chain",
                          "presentation:strided", "presentation:view_in_buffer", "class:lopsided", "class:lopsided>32768",
                          "class:views_of_one_buffer", "many:more_than_16_arrays", "class:buffers_refilled_in_place", "class:contiguous_run_operand",
                          "threads:calls_overlapping_another_thread's_call",
                          "class:left_empty", "class:right_empty", "class:touching", "class:nested",
                          "class:interleaved", "class:identical"],
                "thorough": ["kernel_calls", "wrapper_calls", "many_calls", "insitu_workloads", "long_pairs",
                             "threads:calls_overlapping_another_thread's_call"]},
    "exhaustive": {"quick": "all 16384 ordered pairs of subsets of a 7-element universe x 4 embeddings x 6 entry points",
                   "thorough": "all 1048576 ordered pairs of subsets of a 10-element universe x 4 embeddings x 6 entry points"},
    "assumptions": ["inputs satisfy the kernels' precondition (strictly increasing uint32); in-situ calls whose "
                    "inputs violate it are counted and skipped"],
}
META["rule"] += '; round 7: operands that are unbroken runs of 16-200 consecutive row ids ending on word boundaries (2^32-1, 2^31, 65535/6, 255) or anywhere, the other operand overlapping them in every way'
for _t in META["require"]:
    META["require"][_t] = list(META["require"][_t]) + ['class:contiguous_run_operand']


def shards(tier):
    if tier == "quick":
        out = [{"label": "exh7-%s" % e, "kind": "exhaustive", "size": 7, "embedding": e}
               for e in ("identity", "gapped", "extremes", "random")]
        out += [{"label": "exh6-strided", "kind": "exhaustive", "size": 6, "embedding": "gapped", "presentation": ["strided", "strided"]},
                {"label": "exh6-view", "kind": "exhaustive", "size": 6, "embedding": "extremes", "presentation": ["view_in_buffer", "strided"]}]
        out += [{"label": "random", "kind": "random", "n": 3000, "maxlen": 300},
                {"label": "many", "kind": "many", "n": 4000},
                {"label": "insitu", "kind": "insitu", "n": 150},
                {"label": "threads", "kind": "threads", "n": 3},
                {"label": "repotests", "kind": "repotests"}]
    else:
        out = []
        for e in ("identity", "gapped", "extremes", "random"):
            for part in range(4):
                out.append({"label": "exh10-%s-%d" % (e, part), "kind": "exhaustive", "size": 10,
                            "embedding": e, "part": part, "parts": 4})
        out += [{"label": "exh8-strided", "kind": "exhaustive", "size": 8, "embedding": "gapped", "presentation": ["strided", "strided"]},
                {"label": "exh8-view", "kind": "exhaustive", "size": 8, "embedding": "extremes", "presentation": ["view_in_buffer", "strided"]},
                {"label": "exh8-own-strided", "kind": "exhaustive", "size": 8, "embedding": "identity", "presentation": ["own", "strided"]}]
        out += [{"label": "random%d" % i, "kind": "random", "n": 20000, "maxlen": 400} for i in range(3)]
        out += [{"label": "long", "kind": "random", "n": 300, "maxlen": 100000, "long": True}]
        out += [{"label": "many%d" % i, "kind": "many", "n": 40000} for i in range(2)]
        out += [{"label": "insitu%d" % i, "kind": "insitu", "n": 1500} for i in range(2)]
        out += [{"label": "threads", "kind": "threads", "n": 25}]
        out += [{"label": "repotests", "kind": "repotests", "timeout_s": 3600}]
    return out


# --------------------------------------------------------------------------- #
def _set(a):
    return set(a.tolist())


def check_result(ctx, what, res, expected_set, case, allow_none_for_empty=False):
    """res must be the strictly increasing uint32 array of expected_set."""
    if res is None:
        if allow_none_for_empty and not expected_set:
            return True
        ctx.violation("%s:wrong-None" % what, "%s returned None, expected %d elements" % (what, len(expected_set)), case)
        return False
    if allow_none_for_empty and not expected_set:
        ctx.violation("%s:empty-not-None" % what, "%s returned %r for an empty result (documented: None)" % (what, res), case)
        return False
    if not isinstance(res, numpy.ndarray) or res.dtype != U32 or res.ndim != 1:
        ctx.violation("%s:not-uint32-1d" % what, "%s returned %r (%s)" % (what, res, getattr(res, "dtype", type(res))), case)
        return False
    got = res.tolist()
    exp = sorted(expected_set)
    if got != exp:
        sig = "dups" if len(set(got)) != len(got) else ("unsorted" if sorted(got) != got else
                                                         ("missing" if set(got) < set(exp) else
                                                          ("extra" if set(got) > set(exp) else "wrong")))
        ctx.violation("%s:%s" % (what, sig), "%s returned %s, expected %s" % (what, got[:40], exp[:40]), case)
        return False
    return True


def run_pair(ctx, so, a, b, where, sa=None, sb=None, kernels_only=False):
    """All six entry points on the pair (a, b)."""
    sa = _set(a) if sa is None else sa
    sb = _set(b) if sb is None else sb
    ab, bb = a.tobytes(), b.tobytes()
    ctx.count("class:" + K.overlap_class(sa, sb))
    nt = K.nontrivial_pair(sa, sb)
    for name, fn in (("intersect", so.set_intersect_merge_np), ("union", so.set_union_merge_np),
                     ("difference", so.set_difference_merge_np)):
        case = {"api": "kernel", "op": name, "a": a, "b": b}
        res = fn(a, b)
        ctx.count("kernel_calls")
        ctx.evaluation(("k", name, ab, bb), nt)
        check_result(ctx, "kernel:" + name, res, K.OPS[name](sa, sb), case)
        if a.tobytes() != ab or b.tobytes() != bb:
            ctx.violation("kernel:%s:mutated-input" % name, "input changed by the kernel", case)
    if kernels_only:
        return
    for name, fn in (("intersect", so.intersection), ("union", so.union), ("difference", so.difference)):
        case = {"api": "wrapper", "op": name, "a": a, "b": b}
        res = fn(a, b)
        ctx.count("wrapper_calls")
        ctx.evaluation(("w", name, ab, bb), nt)
        check_result(ctx, "wrapper:" + name, res, K.OPS[name](sa, sb), case, allow_none_for_empty=True)
        if a.tobytes() != ab or b.tobytes() != bb:
            ctx.violation("wrapper:%s:mutated-input" % name, "input changed by the wrapper", case)


def wrapper_conventions(ctx, so, a, b):
    """None operands and copy flags."""
    sa, sb = _set(a), _set(b)
    # intersection
    for l, r in ((None, b), (a, None), (None, None)):
        res = so.intersection(l, r)
        ctx.count("wrapper_none_calls")
        ctx.evaluation(("wn", "i", l is None, r is None, a.tobytes(), b.tobytes()), False)
        if res is not None:
            ctx.violation("wrapper:intersect:None-operand", "intersection with a None operand returned %r" % (res,),
                          {"api": "wrapper", "op": "intersect", "a": l, "b": r})
    # union
    for l, r, cl, cr in itertools.product((None, a), (None, b), (False, True), (False, True)):
        if l is not None and r is not None:
            continue
        res = so.union(l, r, copy_left=cl, copy_right=cr)
        ctx.count("wrapper_none_calls")
        ctx.evaluation(("wn", "u", l is None, r is None, cl, cr, a.tobytes(), b.tobytes()), False)
        case = {"api": "wrapper", "op": "union", "a": l, "b": r, "copy_left": cl, "copy_right": cr}
        exp = (sa if l is not None else set()) | (sb if r is not None else set())
        if check_result(ctx, "wrapper:union-None", res, exp, case, allow_none_for_empty=True) and res is not None:
            src, flag = (l, cl) if l is not None else (r, cr)
            if flag and numpy.shares_memory(res, src):
                ctx.violation("wrapper:union:copy-shares-memory", "copy requested but the result shares memory", case)
    # difference
    for l, r, cp in itertools.product((None, a), (None, b), (False, True)):
        if l is not None and r is not None:
            continue
        res = so.difference(l, r, copy=cp)
        ctx.count("wrapper_none_calls")
        ctx.evaluation(("wn", "d", l is None, r is None, cp, a.tobytes(), b.tobytes()), False)
        case = {"api": "wrapper", "op": "difference", "a": l, "b": r, "copy": cp}
        if l is None:
            if res is not None:
                ctx.violation("wrapper:difference:None-left", "difference(None, x) returned %r" % (res,), case)
        else:
            if check_result(ctx, "wrapper:difference-None", res, sa, case, allow_none_for_empty=True) \
                    and res is not None and cp and numpy.shares_memory(res, l):
                ctx.violation("wrapper:difference:copy-shares-memory", "copy requested but the result shares memory", case)


def run_many(ctx, so, arrays):
    sets = [_set(x) for x in arrays]
    exp = set().union(*sets) if sets else set()
    nonempty = [s for s in sets if s]
    nt = len(nonempty) >= 2 and any(a & b for a, b in itertools.combinations(nonempty, 2))
    before = [x.tobytes() for x in arrays]
    case = {"api": "many", "arrays": list(arrays)}
    res = so.set_union_merge_many(list(arrays))
    ctx.count("many_calls")
    ctx.count("many_k=%d" % len(arrays))
    ctx.evaluation(("m", tuple(before)), nt)
    check_result(ctx, "many", res, exp, case)
    if [x.tobytes() for x in arrays] != before:
        ctx.violation("many:mutated-input", "input changed by set_union_merge_many", case)


# --------------------------------------------------------------------------- #
def judge(ctx, case):
    """Replay entry: re-run one recorded case."""
    import catii.set_operations as so

    api = case["api"]
    if api == "many":
        run_many(ctx, so, [numpy.asarray(x, dtype=U32) for x in case["arrays"]])
    elif api == "insitu":
        insitu(ctx, 1, replay_case=case)
    elif api == "threads":
        threads_case(ctx, so, case)
    else:
        a = None if case.get("a") is None else numpy.asarray(case["a"], dtype=U32)
        b = None if case.get("b") is None else numpy.asarray(case["b"], dtype=U32)
        if a is None or b is None:
            wrapper_conventions(ctx, so, a if a is not None else K.arr([]), b if b is not None else K.arr([]))
        else:
            run_pair(ctx, so, a, b, "replay")


def threads_case(ctx, so, case):
    out = K.threaded_workload(so, numpy.random.default_rng(case["wseed"]), threads=case["threads"], rounds=20, big=case["big"])
    ctx.count("threads:calls", out["calls"])
    ctx.count("threads:calls_overlapping_another_thread's_call", out["overlapping"])
    ctx.evaluation(("threads", case["wseed"], case["threads"], case["big"]), out["overlapping"] > 0, n=max(1, out["calls"]))
    for t, name, e in out["errors"]:
        ctx.violation("threads:%s:raised" % name, "kernel %s raised %r while other threads were inside the kernels "
                      "(each thread has its own operands)" % (name, e), case)
    for t, name, detail, operands in out["mismatches"]:
        ctx.violation("threads:%s:wrong-result" % name,
                      "kernel %s returned a wrong result (%s) while other threads were inside the kernels; each thread "
                      "has its own operands" % (name, detail), case)
    if out["stuck_threads"]:
        ctx.inconclusive.append("threads workload: %d threads did not finish" % out["stuck_threads"])


def run_shard(ctx):
    import catii.set_operations as so

    s = ctx.shard
    rng = ctx.rng
    kind = s["kind"]
    if kind == "exhaustive":
        size = s["size"]
        emb = K.embeddings(size, numpy.random.default_rng([ctx.seed, 8, size]))[s["embedding"]]
        subs = K.subsets(size)
        arrays = [K.arr([emb[i] for i in t]) for t in subs]
        sets = [set(x.tolist()) for x in arrays]
        part, parts = s.get("part", 0), s.get("parts", 1)
        pres = s.get("presentation")
        if pres:
            # same enumeration, operands presented as strided views / views inside larger buffers
            left = [[x for l, x in K.presentations(a.tolist(), rng) if l == pres[0]][0] for a in arrays]
            right = [[x for l, x in K.presentations(a.tolist(), rng) if l == pres[1]][0] for a in arrays]
            for i in range(len(subs)):
                for j in range(len(subs)):
                    run_pair(ctx, so, left[i], right[j], "exh-" + pres[0], sets[i], sets[j], kernels_only=False)
                if ctx.full():
                    return
            ctx.count("presentation:%s" % pres[0], len(subs) ** 2)
            ctx.count("presentation:%s" % pres[1], len(subs) ** 2)
            return
        n = 0
        for i in range(len(subs)):
            if i % parts != part:
                continue
            for j in range(len(subs)):
                run_pair(ctx, so, arrays[i], arrays[j], "exh", sets[i], sets[j])
                n += 1
            if ctx.full():
                return
        ctx.count("exhaustive_pairs", n)
        ctx.sample({"embedding": s["embedding"], "universe": emb, "example_pair": [arrays[5].tolist(), arrays[-2].tolist()]})
        # wrapper conventions on a slice of the pairs
        for i in range(0, len(subs), max(1, len(subs) // 16)):
            wrapper_conventions(ctx, so, arrays[i], arrays[(i * 7 + 3) % len(subs)])
    elif kind == "random":
        for n in range(s["n"]):
            a, b = K.random_pair(rng, maxlen=s["maxlen"])
            # the same sequences presented as views: inside a larger buffer, strided, read-only
            if n % 3 == 1 and len(a) <= 5000:
                pa, pb = K.pickone(rng, ["own", "view_in_buffer", "strided", "readonly", "record_field", "record_field_reversed"]), K.pickone(rng, ["own", "view_in_buffer", "strided", "readonly", "record_field", "reversed"])
                a = [x for l, x in K.presentations(a.tolist(), rng) if l == pa][0]
                b = [x for l, x in K.presentations(b.tolist(), rng) if l == pb][0]
                ctx.count("presentation:%s" % pa)
                ctx.count("presentation:%s" % pb)
            if n % 4 == 2:
                a, b = K.lopsided_pair(rng, long_len=None if (s.get("long") or n % 16 == 2) else K.pickone(rng, K.LADDER[:9]))
                ctx.count("class:lopsided")
                if max(len(a), len(b)) > 32768:
                    ctx.count("class:lopsided>32768")
            elif n % 25 == 7:
                a, b = K.shared_base_views(rng)
                ctx.count("class:views_of_one_buffer")
            elif n % 25 == 13:
                # one operand is an unbroken run of consecutive row ids (16..200 of them) ending on a word boundary
                # (2^32-1, 2^31, 65535, 255) or anywhere; the other one overlaps it in every way
                ln = int(K.pickone(rng, [16, 31, 32, 33, 64, 200]))
                end = int(K.pickone(rng, [2 ** 32 - 1, 2 ** 32 - 1, 2 ** 31, 2 ** 31 - 1, 65535, 65536, 255, int(rng.integers(300, 10 ** 6))]))
                end = max(end, ln)
                run = numpy.arange(end - ln + 1, end + 1, dtype=numpy.uint64).astype(U32)
                lo_ = max(0, end - 3 * ln)
                pool = numpy.arange(lo_, min(2 ** 32, end + 2 * ln), dtype=numpy.uint64)
                other = numpy.sort(rng.choice(pool, size=min(len(pool), int(rng.integers(1, 2 * ln))), replace=False)).astype(U32)
                if rng.random() < 0.3:
                    other = numpy.unique(numpy.concatenate([other, run[-1:]]))
                a, b = (other, run) if rng.random() < 0.6 else (run, other)
                ctx.count("class:contiguous_run_operand")
            run_pair(ctx, so, a, b, "random")
            if s.get("long"):
                ctx.count("long_pairs")
            if n % 10 == 0:
                wrapper_conventions(ctx, so, a[:50], b[:50])
            if n == 0:
                ctx.sample({"a_head": a[:8].tolist(), "len_a": len(a), "b_head": b[:8].tolist(), "len_b": len(b)})
            if ctx.full():
                return
        # The same two buffers refilled IN PLACE between calls (same objects, same length, same first and last
        # element, another interior), and short-lived operands whose addresses the allocator re-uses: a result
        # remembered per operand identity is stale the second time.
        for rep in range(6 if not s.get("long") else 2):
            L = int(K.pickone(rng, [3, 5, 16, 200]))
            lo_, hi_ = int(K.pickone(rng, [0, 7])), int(K.pickone(rng, [2 ** 32 - 1, 100000]))
            A = numpy.zeros(L, dtype=U32)
            B = numpy.zeros(L, dtype=U32)
            for t in range(8):
                for buf in (A, B):
                    inner = numpy.sort(rng.choice(numpy.arange(lo_ + 1, min(hi_, lo_ + 4 * L + 2)), size=L - 2, replace=False)) if L > 2 else []
                    buf[0], buf[-1] = lo_, hi_
                    buf[1:-1] = inner
                run_pair(ctx, so, A, B, "refilled")
                ctx.count("class:buffers_refilled_in_place")
                # ... and fresh short-lived arrays of the same shape (their addresses are re-used)
                run_pair(ctx, so, A.copy(), B.copy(), "short-lived")
    elif kind == "many":
        top = 2 ** 32 - 1
        for n in range(s["n"]):
            k = int(rng.integers(0, 6))
            uni = int(K.pickone(rng, [6, 12, 40, 2 ** 32]))
            arrays = []
            if n % 50 == 13:
                # many arrays (pairwise-reduction shortcuts): counts around powers of two
                k = int(K.pickone(rng, [17, 20, 31, 33, 64, 100]))
                arrays = [numpy.unique(rng.integers(0, 5000, size=int(rng.integers(0, 6)))).astype(U32) for _ in range(k)]
                arrays[-1] = numpy.unique(numpy.concatenate([arrays[-1], numpy.array([6001 + n], dtype=U32)]))
                arrays[0] = numpy.unique(numpy.concatenate([arrays[0], numpy.array([7001 + n], dtype=U32)]))
                ctx.count("many:more_than_16_arrays")
                run_many(ctx, so, arrays)
                continue
            if n % 5 == 4:
                # an ordered chain of arrays that are pairwise disjoint or touch at one element
                # (and permutations of it): the shapes a "just concatenate" shortcut would target
                k = int(rng.integers(2, 6))
                cur = int(rng.integers(0, 5))
                for _ in range(k):
                    m = int(rng.integers(1, 5))
                    x = cur + numpy.cumsum(rng.integers(1, 4, size=m)) - 1
                    x[0] = cur
                    x = numpy.unique(x).astype(U32)
                    arrays.append(x)
                    cur = int(x[-1]) + int(rng.integers(0, 2))     # 0 = touching, 1 = adjacent
                if rng.random() < 0.3:
                    rng.shuffle(arrays)
                ctx.count("many:chain")
                run_many(ctx, so, arrays)
                continue
            for _ in range(k):
                m = int(rng.integers(0, 8)) if rng.random() < 0.8 else int(rng.integers(0, 60))
                if rng.random() < 0.15:
                    m = 0
                if uni <= 40:
                    x = numpy.sort(rng.choice(uni, size=min(m, uni), replace=False)).astype(U32)
                else:
                    x = numpy.unique(rng.integers(0, uni, size=m, dtype=numpy.uint64)).astype(U32)
                if rng.random() < 0.15:
                    x = numpy.unique(numpy.concatenate([x, numpy.array([top], dtype=U32)]))
                if rng.random() < 0.1 and arrays:
                    x = arrays[int(rng.integers(0, len(arrays)))].copy()
                arrays.append(x)
            run_many(ctx, so, arrays)
            if n == 3:
                ctx.sample({"multiway": [x.tolist() for x in arrays]})
            if ctx.full():
                return
    elif kind == "insitu":
        insitu(ctx, s["n"])
    elif kind == "threads":
        # several threads inside the kernels at once, each on its own operands (as the cubes' pools do)
        for n in range(s["n"]):
            threads_case(ctx, so, {"api": "threads", "wseed": int(rng.integers(0, 2 ** 31)),
                                   "threads": int(K.pickone(rng, [4, 8, 12])),
                                   "big": int(K.pickone(rng, [40000, 150000, 300000]))})
            if ctx.full():
                return
    elif kind == "repotests":
        from .. import repotests

        repotests.run(ctx, "C08")


# --------------------------------------------------------------------------- #
def insitu(ctx, n, replay_case=None):
    """Judge every kernel/wrapper call made by real cube walks and set updates."""
    import catii
    import catii.ccubes
    import catii.iindexes
    import catii.set_operations as so
    from .. import gen

    current = {"case": None}

    def make(name, opname, allow_none):
        def factory(orig, patch):
            def wrapper(left, right, *a, **kw):
                patch.calls += 1
                res = orig(left, right, *a, **kw)
                ctx.count("insitu_kernel_calls")
                ctx.count("insitu:" + name)
                if left is None or right is None:
                    return res
                la, ra = numpy.asarray(left), numpy.asarray(right)
                if not (K.is_strict_u32(la) and K.is_strict_u32(ra)):
                    ctx.count("insitu_precondition_violated_skipped")
                    return res
                sa, sb = _set(la), _set(ra)
                ctx.evaluation(("is", name, la.tobytes(), ra.tobytes()), K.nontrivial_pair(sa, sb))
                check_result(ctx, "insitu:" + name, res, K.OPS[opname](sa, sb),
                             {"api": "insitu", "workload": current["case"], "call": name, "a": la, "b": ra},
                             allow_none_for_empty=allow_none)
                return res
            return wrapper
        return factory

    patches = [
        monitors.patch_everywhere(so.set_intersect_merge_np, make("set_intersect_merge_np", "intersect", False)),
        monitors.patch_everywhere(so.union, make("union", "union", True)),
        monitors.patch_everywhere(so.intersection, make("intersection", "intersect", True)),
        monitors.patch_everywhere(so.difference, make("difference", "difference", True)),
    ]
    ctx.extra["insitu_binding_sites"] = sum(len(p.sites) for p in patches)
    try:
        rng = ctx.rng
        for i in range(n):
            if replay_case is not None:
                wl = replay_case["workload"]
            else:
                wl = {"cube": gen.cube_case(rng, min_dims=2, max_dims=4, max_axes=1, n=gen.pick(rng, [8, 20, 60, 200])),
                      "upd_seed": int(rng.integers(0, 2 ** 31))}
            current["case"] = wl
            ctx.count("insitu_workloads")
            dims = gen.cube_dims(wl["cube"])
            try:
                catii.ccube(dims, interacting_shape=wl["cube"]["shape"]).count()
                # entry-wise set updates between two of the indexes
                r2 = numpy.random.default_rng(wl["upd_seed"])
                a, b = dims[0].copy(), dims[1].copy()
                op = int(r2.integers(0, 3))
                if op == 0:
                    a.union_update(b)
                elif op == 1:
                    a.intersection_update(b)
                else:
                    a.difference_update(b)
            except Exception:
                # the workload only drives the kernels; a failure elsewhere in the library is
                # another property's business (the kernel calls made so far have been judged)
                ctx.count("insitu_workload_raised(not judged here)")
            if i == 0:
                ctx.sample({"insitu_workload": {"dense": [d.tolist()[:10] for d in wl["cube"]["dense"]],
                                                "commons": wl["cube"]["commons"]}})
            if ctx.full():
                break
    finally:
        for p in patches:
            p.undo()
