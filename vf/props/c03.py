"""C03 - index cube, array cube and direct group-by agree on the shared aggregates.

Oracle: dense group-by (vf/oracles.py); triangular comparison (each cube vs the
reference)."""
import numpy

from .. import aggr, gen, monitors, oracles

NaN = float("nan")

META = {
    "level": "exploration",
    "rule": ("input = cube case of C02 x fact class (float64/int64, 1 or 2-3 columns, NaN-marked or (values, validity) with garbage under False, missing density 0/.2/.6/1) x weight class (none, scalar, array, (values, validity); >=0 with zeros) x ignore_missing x dense dtype class (unsigned from to_array(), signed, int64) x explicit/inferred shape; each judged for count, valid_count, sum, mean on ccube and on two xcubes; counter-boundary cells, >1024 cells, cells of very unequal weight, all-tiny weights (x 2^-30, 2^-40), missing scalar weights, one object as two dimensions, the same argument objects for every call, pooled evaluation, calculate([...]) with untraced function objects. Non-trivial: >=1 dimension, >=1 missing input row, >=1 non-missing output cell; distinct by content hash"),
    "require": {t: ["class:fact=cols", "class:fact=1col", "class:w=scalar", "class:w=tuple", "class:w=array",
                    "class:w=none", "class:ignore", "class:propagate", "class:xdtype=from_index", "class:xdtype=signed",
                    "class:ndims=0", "class:ndims>=3", "class:xshape=inferred", "class:fact=int",
                    "class:cols+weights+propagate", "compared:ccube", "compared:xcube", "class:cell_counter_on_boundary", "class:more_than_1024_cells", "class:cells_of_very_unequal_weight", "class:evaluated_with_the_worker_pool_on", "class:via_calculate_with_untraced_function_objects",
                    "class:argument_objects_shared_between_calls", "format:nan", "format:tuple", "format:plain0"] for t in ("quick", "thorough")},
    "assumptions": ["tolerance 1e-9*max(1, sum|w*x|) (x20 for means); missing sets compared exactly",
                    "weights are >= 0 and never tiny-positive (< 0.05), so 'weight sum is zero' is unambiguous",
                    "array cube with inferred shape only for N >= 1 (a dense array of zero rows carries no extent)"],
}
META["rule"] += '; round 7: weights that are all exactly 1 (one case in eight)'


def shards(tier):
    if tier == "quick":
        return [{"label": "inputs%d" % i, "n": 220} for i in range(14)]
    return [{"label": "inputs%d" % i, "n": 5500} for i in range(16)]


def cases(ctx):
    rng = ctx.rng
    for i in range(ctx.shard["n"]):
        if i % 40 == 23:
            c = aggr.many_cells_case(rng)
            c["xdtype"] = gen.pick(rng, ["signed", "unsigned", "int64"])
            c["xshape_inferred"] = bool(rng.random() < 0.3)
            yield c
            continue
        if i % 40 == 31:
            c = aggr.unequal_cells_case(rng)
            c["xdtype"] = gen.pick(rng, ["signed", "unsigned", "int64"])
            c["xshape_inferred"] = False
            yield c
            continue
        if i % 40 == 7:
            c = aggr.counter_boundary_case(rng)
            c["xdtype"] = gen.pick(rng, ["signed", "unsigned", "int64"])
            c["xshape_inferred"] = False
            yield c
            continue
        c = gen.cube_case(rng, max_dims=4, n=gen.pick(rng, [1, 2, 3, 5, 8, 17, 40, 60, 120]) if rng.random() < 0.9 else 0)
        if rng.random() < 0.08:
            gen.add_alias(rng, c)       # one index object as two dimensions of the cube
        n = c["dense"][0].shape[0] if c["dense"] else gen.pick(rng, [1, 4, 9])
        c["n"] = n
        c.update(aggr.agg_inputs(rng, n, tiny_weights=True))
        c["xdtype"] = gen.pick(rng, ["signed", "unsigned", "int64"])
        c["xshape_inferred"] = bool(rng.random() < 0.5)
        yield c


def classify(code, lineno, text):
    t = text.strip()
    if code.co_name != "fill":
        return None
    if "self.bins(coordinates, size)" in t:
        return "arm:xfunc_several_columns(bins)"
    if t.startswith("sums[:] = numpy.bincount(") or t.startswith("counts[:] = numpy.bincount("):
        return "arm:xfunc_one_column(bincount)"
    return None


_probe = None


def probe():
    """Source-text line probe (one column vs several columns arms): evidence only."""
    global _probe
    if _probe is None:
        try:
            from catii import xfuncs

            _probe = monitors.LineProbe([xfuncs.xfunc_count, xfuncs.xfunc_valid_count, xfuncs.xfunc_sum, xfuncs.xfunc_mean],
                                        classify)
            _probe.install()
        except Exception:
            from .c01 import _NoProbe

            _probe = _NoProbe()
    return _probe


def judge(ctx, case):
    import catii

    rng = numpy.random.default_rng(abs(hash(case["xdtype"])) % 1000 + case["n"])
    dense = [numpy.asarray(d) for d in case["dense"]]
    dims = gen.cube_dims(case)
    n = case["n"]
    shape = case["shape"]
    exp_shape = tuple(shape) if shape is not None else gen.inferred_shape(case)
    f, w = case["fact"], case["weights"]
    ctx.count("class:fact=" + ("cols" if f["values"].ndim == 2 else "1col"))
    ctx.count("class:fact=" + ("int" if f["values"].dtype.kind == "i" else "float"))
    ctx.count("class:w=" + w["kind"])
    if case.get("boundary_m"):
        ctx.count("class:cell_counter_on_boundary")
    if case.get("alias"):
        ctx.count("class:same_index_object_as_two_dimensions")
    if case.get("many_cells"):
        ctx.count("class:more_than_1024_cells")
    if case.get("unequal_cells"):
        ctx.count("class:cells_of_very_unequal_weight")
    # every second input hands the SAME argument objects to all of its calls (index cube first)
    shared = {} if n % 2 == 0 else None
    if shared is not None:
        ctx.count("class:argument_objects_shared_between_calls")
    ctx.count("class:ignore" if case["ignore_missing"] else "class:propagate")
    ctx.count("class:ndims=%d" % len(dense) if len(dense) < 3 else "class:ndims>=3")
    if f["values"].ndim == 2 and w["kind"] in ("array", "tuple") and not case["ignore_missing"]:
        ctx.count("class:cols+weights+propagate")
    pr = probe()
    pr.arm()

    cubes = [("ccube", catii.ccube(dims, interacting_shape=shape), exp_shape)]
    if dense:
        xin = aggr.xcube_dense(rng, dims, dense, "from_index")
        infer = case["xshape_inferred"] and n >= 1
        xs = tuple(int(a.max()) + 1 for a in dense) if infer else exp_shape
        ctx.count("class:xshape=" + ("inferred" if infer else "explicit"))
        cubes.append(("xcube[from_index]", catii.xcube(xin, interacting_shape=None if infer else exp_shape), xs))
        ctx.count("class:xdtype=from_index")
        xin2 = aggr.xcube_dense(rng, dims, dense, case["xdtype"])
        cubes.append(("xcube[%s]" % case["xdtype"], catii.xcube(xin2, interacting_shape=None if infer else exp_shape), xs))
        ctx.count("class:xdtype=" + case["xdtype"])
    else:
        cubes.append(("xcube[nodims]", catii.xcube([]), ()))

    # evaluation mode and entry point are part of the configuration as well: with several sub-cubes (extra axes) every
    # third input is evaluated with the cube's worker pool switched on; every fourth goes through calculate([...])
    # with aggregate objects built without their timing bookkeeping (index cube)
    subcubes = int(numpy.prod(oracles.scaffold_shape(dense) or (1,)))
    pooled_eval = subcubes >= 3 and (n + len(dense)) % 3 == 0
    if pooled_eval:
        for _, cube, _ in cubes:
            cube.parallel = True
        ctx.count("class:evaluated_with_the_worker_pool_on")
    via = "calculate_untraced" if (n + 2 * len(dense)) % 4 == 1 else "shortcut"
    if via != "shortcut":
        ctx.count("class:via_calculate_with_untraced_function_objects")
    missing_rows = aggr.has_missing_rows(case)
    # the report format is part of the configuration: mostly NaN in place, sometimes the other two
    frng = numpy.random.default_rng(n * 31 + len(dense))
    for agg in aggr.SHARED:
        tol = aggr.tolerance(case, agg)
        for name, cube, cshape in cubes:
            ref_v, ref_m = aggr.reference(case, agg, dense, cshape)
            r = frng.random()
            rma = NaN if r < 0.6 else ((gen.pick(frng, [0, -1, 7]), False) if r < 0.85 else 0)
            if rma == 0 and not isinstance(rma, tuple) and agg == "valid_count" and not case["ignore_missing"]:
                rma = NaN      # the documented shortcut (see C04) is excluded
            ctx.count("format:" + ("nan" if rma is NaN else ("tuple" if isinstance(rma, tuple) else "plain0")))
            res = aggr.call(cube, agg, case, rma, shared, via=via)
            ctx.count("compared:" + name.split("[")[0])
            nt = len(dense) >= 1 and missing_rows and bool((~ref_m).any())
            ctx.evaluation({"c": {k: case[k] for k in ("dense", "commons", "shape", "fact", "weights", "ignore_missing")},
                            "a": agg, "cube": name}, nt)
            bad = oracles.compare(res, rma, ref_v, ref_m, tol)
            if bad:
                ctx.violation("%s:%s" % (bad[0], aggr.feature_key(case, agg, name.split("[")[0])),
                              "%s.%s vs direct group-by: %s" % (name, agg, bad[1]), case)
                return
    for lab in pr.labels():
        ctx.count(lab)
    if ctx.evals % 600 < 12 and len(ctx.samples) < 4:
        ctx.sample({"dense": dense, "commons": case["commons"], "shape": shape, "fact": f["values"],
                    "fact_validity": f["validity"], "weights": w, "ignore_missing": case["ignore_missing"]})
