#!/venv/bin/python
"""Regenerate /verif/MANIFEST.json from the table below (kept in one place so
the manifest is always schema-valid)."""
import json
import os
import subprocess

ROOT = os.path.dirname(os.path.dirname(os.path.abspath(__file__)))

# id -> (level, technique, level text, level note, design section)
CHECKS = {
    "C01": ("exploration",
            "differential reference-model monitor (NumPy) over stratified generated inputs + source-text line probe of construction arms",
            "Thousands (quick) to ~2*10^5 (thorough) real from_array/to_array round trips over the cross product of shape, "
            "alphabet (dtype boundaries to 2^63-1, negatives), sparsity, common, counts, mapping and way-back classes are "
            "compared element-wise with the (mapped) input; input classes that select each construction strategy are "
            "required to occur, and a sys.monitoring line probe reports which arm each case executed.",
            "Held on the generated inputs only; integer categories; N=0 without common/mapping is refused by contract and not generated.",
            "DESIGN.md section 2 C01"),
    "C02": ("exploration",
            "differential monitor: brute-force dense group-by over the dense twins vs the real count cube, integer exact; twin cases (same structural signature, other content) judged straight after one another",
            "Thousands (quick) to 1.5*10^5 (thorough) cubes of 0-4 constructor-built index dimensions (1-3 axes, any common "
            "incl. absent and = extent, padded/inferred shapes, boundary extents) are counted by the real ccube and compared "
            "cell by cell (value and missing flag, both report formats) with a contingency table computed from the dense "
            "arrays; cells are tallied by how many coordinates are a common category (visited vs reconstructed).",
            "Sampled inputs; category codes 0..extent-1.",
            "DESIGN.md section 2 C02"),
    "C03": ("exploration",
            "triangular differential monitor: ccube and two xcubes (unsigned-from-index, other integer dtype) each vs a direct per-cell computation",
            "For every generated input (cube x fact form x weight form x policy x dtype class x explicit/inferred shape) the "
            "four shared aggregates of the index cube and of two array cubes are compared with a direct per-cell computation "
            "over the dense rows: missing sets exactly, values within 1e-9 of the grand total.",
            "Sampled inputs; weights >= 0 incl. zeros, all-tiny weights (x 2^-30, 2^-40) and cells of very unequal weight; evaluation with the pool on and through untraced function objects are part of the input.",
            "DESIGN.md section 2 C03"),
    "C04": ("exploration",
            "reference rule monitor: the stated missing-cell rule evaluated per cell; three report formats cross-compared",
            "Each aggregate of both cube types is evaluated under NaN, (sentinel, False) for several sentinels and plain 0; "
            "each result is compared with the rule (no rows / all or any missing / zero weight sum for means) evaluated on "
            "the cell's rows, sentinels as cast to the result dtype, and the formats with each other.",
            "The documented valid_count/plain-value/propagation shortcut is excluded as the property states.",
            "DESIGN.md section 2 C04"),
    "C05": ("exploration",
            "metamorphic monitor: every re-encoding of the common value vs the original encoding's outputs",
            "Each dimension of each cube is re-expressed with every value 0..extent as common (one at a time in quick; all "
            "prod(extent+1) combinations for small cubes in thorough), optionally re-normalised, and the four aggregates "
            "must not change (missing exact, values within rounding).",
            "Uses the library's shift_common to re-encode (its dense result is checked first).",
            "DESIGN.md section 2 C05"),
    "C06": ("exploration",
            "history + executable model: NumPy model carried beside every live index through seeded operation histories",
            "Seeded histories of 1-15 operations over a pool of live indexes; after every step the receiver and every "
            "result are compared with the NumPy model (to_array), operands are byte-snapshotted, requested copies are "
            "checked for shared storage, observations (get/items/to_dict/common_rowids) and entry-wise set updates are "
            "compared with the model. 3*10^4 (quick) to ~3*10^6 (thorough) judged operations.",
            "Sampled histories; slices1d order, duplicate precedence/order lists and short sliced() argument lists are "
            "deliberately not demanded (see DESIGN.md).",
            "DESIGN.md section 2 C06"),
    "C07": ("exploration",
            "invariant at quiescent points: library validator + range/arity/non-emptiness conditions after every step of a history",
            "The C06 history engine with the well-formedness oracle: validate(True) plus the conditions it does not check, "
            "and the named consequences (abscissae, sparsity, inferred cube shape), evaluated after each top-level call returns.",
            "Transient states inside operations are not inspected; sampled histories.",
            "DESIGN.md section 2 C07"),
    "C08": ("exploration",
            "set-algebra oracle over an exhaustive small-universe enumeration + in-situ kernel-call monitor + concurrent-threads workload with an overlap counter",
            "All ordered pairs of subsets of a 7- (quick) / 10-element (thorough) universe under four order-preserving "
            "embeddings into uint32 (incl. 0 and 2^32-1) through the three kernels and three wrappers, structured random "
            "arrays up to 10^5 elements, the None/copy conventions, multi-way unions, and every kernel call made by real "
            "cube walks and set updates (wrappers installed at every binding site) are judged against Python set arithmetic.",
            "Exhaustive only within the stated universe; random beyond it.",
            "DESIGN.md section 2 C08"),
    "C09": ("exploration",
            "sanitizers: AddressSanitizer+UBSan rebuild and bounds-checked rebuild of the working-tree .pyx, stderr-growth monitor per call, also under concurrent threads",
            "Every ordered pair of subsets of a 6- (quick) / 8-element (thorough) universe, each operand presented as own "
            "allocation / view inside a larger buffer / strided view / read-only array, runs through the kernels of an "
            "ASan+UBSan build (red zones around each NumPy allocation; report tied to the call in flight; a libc over-read "
            "canary proves the pipeline is live) and of a bounds-checked build (IndexError per out-of-range memoryview "
            "access, also inside larger buffers); plus multi-way unions and in-situ cube walks on both builds.",
            "A clean run is absence of reports on the executions produced, not memory safety; raw-pointer code would "
            "escape the bounds-checked build, intra-buffer overruns escape ASan.",
            "DESIGN.md section 2 C09"),
    "C10": ("exploration",
            "round-trip monitor on real files over word-size/arity/emptiness classes; twin files and earlier results re-read after later loads",
            "Generated entry sets (arity 1-4, 0-5000 entries, coordinate and common magnitudes drawn independently from "
            "the four word-size classes, empty and long row-id arrays, ids to 2^32-1) and well-formed indexes are saved to "
            "real files and loaded back; common, key set, key element types, association, array dtype and content, and the "
            "rebuilt index (== and validate) are compared.",
            "Sampled inputs; a symmetric writer/reader change is C11's business.",
            "DESIGN.md section 2 C10"),
    "C11": ("exploration",
            "independent codec as oracle: byte comparison, independent decode, loader on independently encoded files, sparse-file size-field cases",
            "An encoder/decoder written from the format docstring only judges (1) the bytes written, (2) decodes them "
            "independently, (3) feeds the library loader independently written files under every admissible index-word / "
            "row-id-word size, (4) checks the size field for 2^30..2^32-1 row ids through duck-typed arrays on sparse files.",
            "The independent codec encodes my reading of the docstring (little-endian unsigned, narrowest index word, "
            "dimension byte 0 for an empty index).",
            "DESIGN.md section 2 C11"),
    "C12": ("fault_enumeration",
            "crash-point enumeration: every byte prefix of every generated file is loaded; strace write-trace monitor; SIGKILL experiment",
            "For each generated file (<= ~6 KB) every cut point 0 <= k < len is loaded from a really truncated file and "
            "must raise (3.7*10^5 cut points quick, ~10^7 thorough); a strace monitor confirms the writer only appends "
            "(which makes byte prefixes the complete set of torn states); thorough SIGKILLs a saving subprocess at seeded "
            "file sizes and loads what is on disk.",
            "Crash model = byte prefix (checked by the write trace); files are small so that all cut points can be enumerated.",
            "DESIGN.md section 2 C12"),
    "C13": ("exploration",
            "block-vs-subcube monitor: each extra-axis block of the result vs the same aggregate over harness-made 1-D slices",
            "Cubes with 2- and 3-axis dimensions of pairwise different extra extents: result shape must be extra extents "
            "(dimension order, axis order) + category extents (+ fact columns) and every block must equal the cube over the "
            "1-D slices built by the harness (and over the library's sliced()), for both cube types and all ten aggregates.",
            "The block oracle is the same library's 1-D cube (itself judged by C02/C03/C18).",
            "DESIGN.md section 2 C13"),
    "C14": ("exploration",
            "offline event-log checker: callback log of walk/interactions vs the expected multiset (exactly-once, complete, no extra)",
            "The (coordinates, row ids) pairs delivered to callbacks are recorded and compared as a multiset with the set "
            "computed from the dense twins; common coordinates, duplicates, unsorted row ids and disagreeing callbacks are reported.",
            "Delivery order is not judged.",
            "DESIGN.md section 2 C14"),
    "C15": ("exploration",
            "history + model: value counts on the NumPy model; equality against constructor-built twins and perturbed twins",
            "The C06 history engine with two oracles: after every library-chosen normalisation count(common) must be the "
            "maximum count on the model (ties free); after every step == and != (both directions) are compared with the "
            "constructor-built twin, with twins perturbed in one cell / shape / common, and with non-index objects.",
            "Sampled histories; ill-formed or model-divergent objects end their history (blame C07/C06).",
            "DESIGN.md section 2 C15"),
    "C16": ("exploration",
            "deterministic seeded scheduler (sys.monitoring INSTRUCTION yield points on catii code, uniform + PCT strategies) + real-thread stress + write-set monitor",
            "Pooled calculate is run under a substitute pool whose workers hand a baton over at catii-bytecode granularity "
            "according to a seeded strategy (replayable schedules; events, switches and distinct schedule hashes are "
            "reported) and under the real ThreadPool with a 1e-6 switch interval; every result is compared bit for bit with "
            "the serial run of twin objects, and proxies around the aggregate functions record the region views handed to "
            "each task, which must be pairwise disjoint views of the call's own regions.",
            "Schedules are sampled, not enumerated; whole NumPy/kernel calls are atomic under the controlled scheduler.",
            "DESIGN.md section 2 C16"),
    "C17": ("exploration",
            "byte-and-flag snapshot monitor of every argument around every entry point + result comparison across repeated/permuted/reused calls; returned arrays re-read after every later call; arguments edited in place between calls vs fresh copies",
            "Deep snapshots (dtype, shape, bytes, dict order, index attributes) of all arguments are compared before/after "
            "construction, calculate, the shortcut methods, walk and the non-mutating index methods; calculate(list) is "
            "compared with each function alone, all permutations (<=4), a repeated call, and reuse of the same objects on "
            "another cube and back.",
            "Diagnostic counters are not compared.",
            "DESIGN.md section 2 C17"),
    "C18": ("exploration",
            "reference-model monitor: hand-written textbook statistics per cell vs the array cube",
            "stddev (ddof=1 / reliability weights x n/(n-1)), quantile (numpy.quantile; weighted: missing rule, scale "
            "invariance, range), min/max (float/int/datetime), covariance (optionally weighted) and correlation are compared "
            "cell by cell with two-pass textbook formulas over the cell's rows; NaN and (values, validity) formats compared.",
            "Undefined entries (zero variance, < 2 rows) are not compared; scalar weights for stddev/covariance and weights "
            "for corrcoef are outside the quantifier.",
            "DESIGN.md section 2 C18"),
    "C19": ("exploration",
            "reference-model monitor (numpy.iinfo) over an exhaustive threshold partition + in-situ call monitor",
            "Every (max,min) pair of the threshold partition (all powers of two +-1, both signs, one- and two-argument "
            "forms) is executed against the real fit_dtype and judged by numpy.iinfo plus an actual store/load; "
            "thorough adds 10^6 random pairs and judges every call the library itself makes (to_array, collapsed, "
            "INDX save) through a wrapper installed at both binding sites. Exhaustive over the partition, sampled elsewhere.",
            "Trusts numpy.iinfo; the partition is induced by powers of two, so a threshold at a non-power-of-two "
            "constant would only be seen by the random pairs.",
            "DESIGN.md section 2 C19"),
    "C20": ("fault_enumeration",
            "fault-plan enumeration over cancellation points: callback event log + outcome checker, serial / real pool / controlled scheduler",
            "For each cube (1-24 sub-cubes) every singleton fault plan (the callback raises a fresh exception instance at "
            "invocation i, for every i) is executed in serial mode, under the real ThreadPool and under the deterministic "
            "scheduler, plus sampled multi-element plans; calculate must raise one of the raised instances (return iff the "
            "plan is empty), consult the callback at most once per sub-cube (exactly min(S)+1 times serially), and a "
            "following fault-free calculate on the same objects must equal a fresh evaluation bit for bit.",
            "Tasks that keep running in pool threads after calculate raised are counted as evidence only.",
            "DESIGN.md section 2 C20"),
}

PENDING_REASON = "check not built yet in this session (work in progress; runtime monitoring does apply, see DESIGN.md)"


def main():
    props = [json.loads(l)["id"] for l in open(os.path.join(ROOT, "properties.jsonl"))]
    try:
        fixes = subprocess.run(["git", "-C", "/repo", "log", "--format=%h %s", "--grep=^fix:"],
                               capture_output=True, text=True).stdout.strip().splitlines()
    except Exception:
        fixes = []
    checks = []
    for pid in props:
        if pid not in CHECKS:
            continue
        level, technique, text, note, ref = CHECKS[pid]
        checks.append({
            "property_id": pid,
            "quick_cmd": "./check %s --tier quick" % pid,
            "thorough_cmd": "./check %s --tier thorough" % pid,
            "evidence_file": "/verif/evidence/%s.json" % pid,
            "replay_cmd_template": "./check %s --replay {path}" % pid,
            "engine": "vf",
            "level_claimed": {"category": level, "text": text, "design_ref": ref},
            "level_note": note,
            "technique": technique,
        })
    manifest = {
        "version": 1,
        "setup_cmd": "./setup.sh",
        "hooks": {
            "guard": "CATII_VERIF",
            "enable": "no hooks are compiled into /repo: every monitor is installed from the harness (wrappers at "
                      "every binding site, sys.monitoring probes, sanitizer rebuilds of the working-tree .pyx); the "
                      "guard name exists for form only",
            "baseline_off_cmd": "cd /repo && /venv/bin/python -m pytest -ra -q -p no:cacheprovider --timeout=900 "
                                "--continue-on-collection-errors",
            "source_commits": [],
            "add_only": True,
        },
        "engines": [{
            "name": "vf",
            "path": "/verif/vf",
            "serves_properties": [c["property_id"] for c in checks],
            "kind_free_text": "runtime monitoring: shadow copy of the working tree + kernel rebuilt from the .pyx "
                              "(plain / bounds-checked / ASan+UBSan), sharded subprocess workers, reference-model "
                              "oracles, event-log checkers, deterministic thread scheduler",
        }],
        "checks": checks,
        "notes": "Exit codes: 0 held on what was observed, 1 VIOLATION, 2 INCONCLUSIVE (a deciding monitor was not "
                 "reached or a watchdog fired). Repository repairs (fix: commits) are listed in known_findings.json.",
        "not_applicable": [{"property_id": p, "reason": PENDING_REASON} for p in props if p not in CHECKS],
    }
    with open(os.path.join(ROOT, "MANIFEST.json"), "w") as f:
        json.dump(manifest, f, indent=1)
        f.write("\n")
    print("MANIFEST.json: %d checks, %d not_applicable" % (len(checks), len(manifest["not_applicable"])))


if __name__ == "__main__":
    main()
