"""C05 - results are independent of which category is stored as common.

Oracle (metamorphic): the outputs of the original encoding.  Every dimension is
re-expressed with every possible common value (0..extent, the last one never
occurring in the data), singly (quick) or in all combinations (thorough, small
cubes), optionally re-normalised afterwards; the dense twin of the shifted copy
is compared first, so that a broken re-encoding is reported as such."""
import itertools

import numpy

from .. import aggr, gen, oracles

NaN = float("nan")

META = {
    "level": "exploration",
    "rule": ("cube of 1-3 one- or two-axis dimensions (extents 1-4) with fact/weight classes of C03; baseline = outputs "
             "of count/valid_count/sum/mean under the generated encoding; re-encodings: one dimension x every v in "
             "0..extent (+ re-normalised) [quick], all prod(extent+1) simultaneous encodings [thorough, <=125 per cube]; "
             "missing cells compared exactly, values within rounding. Non-trivial: the new common differs from the old "
             "one and the cube has >=2 non-empty cells; distinct by (content hash, encoding)"),
    "require": {t: ["enc:to_absent_value", "enc:to_empty_value_inside", "enc:to_frequent", "enc:renormalised",
                    "agg:count", "agg:mean", "class:w=scalar", "class:ndims=3", "enc:in_place_on_a_used_cube", "class:one_very_frequent_category"] for t in ("quick", "thorough")},
    "assumptions": ["every encoding uses the same explicit cube shape (extent+1 per dimension) so that outputs are comparable",
                    "re-encoding is done with the library's own shift_common; if its dense result differs from the original the re-encoding itself is reported (C06 reports the same defect at the operation)"],
}
META["rule"] += '; round 7: re-encoding also through iindex.from_array(dense, common=v); cubes of 6-9 categories with 2-5% scattered uncommon rows coinciding across dimensions'
for _t in META["require"]:
    META["require"][_t] = list(META["require"][_t]) + ['enc:rebuilt_from_dense_data', 'class:many_categories_few_scattered_uncommon_rows']


def shards(tier):
    if tier == "quick":
        return [{"label": "cubes%d" % i, "n": 400, "all": False} for i in range(14)]
    return [{"label": "cubes%d" % i, "n": 700, "all": True} for i in range(16)]


def cases(ctx):
    rng = ctx.rng
    for i in range(ctx.shard["n"]):
        if i % 25 == 7:
            # one very frequent category + rare ones on runs of adjacent rows: re-encoding makes the frequent
            # category an explicit (long) row list that is intersected with very short ones
            c = gen.lopsided_cube_case(rng, frequent_explicit=bool(rng.random() < 0.3))
            ctx.count("class:one_very_frequent_category")
        elif i % 25 == 13 or i % 50 == 29:
            c = gen.sparse_regime_case(rng)
            ctx.count("class:many_categories_few_scattered_uncommon_rows")
        else:
            c = gen.cube_case(rng, min_dims=1, max_dims=3, max_axes=2, max_extent=4, explicit_shape=False,
                              allow_outside_common=True, n=gen.pick(rng, [1, 2, 3, 5, 8, 17, 40, 64, 150]))
        c["shape"] = tuple(e + 1 for e in c["extents"])
        n = c["dense"][0].shape[0]
        c["n"] = n
        c.update(aggr.agg_inputs(rng, n, tiny_weights=True))
        c["all"] = bool(ctx.shard["all"])
        c["eseed"] = int(rng.integers(0, 2 ** 31))
        yield c


def outputs(cube, case):
    return {agg: aggr.call(cube, agg, case, NaN) for agg in aggr.SHARED}


def judge(ctx, case):
    import catii

    rng = numpy.random.default_rng(case["eseed"])
    dense = [numpy.asarray(d) for d in case["dense"]]
    base_dims = gen.cube_dims(case)
    shape = tuple(case["shape"])
    n = case["n"]
    ctx.count("class:w=" + case["weights"]["kind"])
    ctx.count("class:ndims=%d" % len(dense))
    base = outputs(catii.ccube(base_dims, interacting_shape=shape), case)
    nonempty = int((~oracles.reference("count", dense, shape, n)[1]).sum())
    tols = {agg: aggr.tolerance(case, agg) for agg in aggr.SHARED}
    per_dim = [list(range(e + 1)) for e in case["extents"]]
    if case["all"] and numpy.prod([len(p) for p in per_dim]) <= 125:
        encodings = list(itertools.product(*per_dim))
    else:
        encodings = []
        for d in range(len(dense)):
            for v in per_dim[d]:
                enc = list(case["commons"])
                enc[d] = v
                encodings.append(tuple(enc))
    h = {"d": dense, "f": case["fact"], "w": case["weights"], "i": case["ignore_missing"]}
    from ..util import case_hash
    hh = case_hash(h)
    for enc in encodings:
        renorm = bool(rng.random() < 0.25)
        dims = []
        changed = False
        rebuilt = bool(rng.random() < 0.3)
        for d, (x, v) in enumerate(zip(base_dims, enc)):
            if rebuilt and dense[d].ndim <= 2:
                # the other road to the same encoding: the library's constructor from the dense data, told the common value
                y = catii.iindex.from_array(dense[d], common=int(v))
                ctx.count("enc:rebuilt_from_dense_data")
            else:
                y = x.copy()
                y.shift_common(int(v))
            if renorm and d == 0:
                y.shift_common()
                ctx.count("enc:renormalised")
            if not numpy.array_equal(gen.index_to_dense(y, numpy.int64), dense[d]):
                # the re-expressed dimension no longer stands for the same data: every output that
                # depends on it changes.  (C06 reports the same defect at the operation itself.)
                ctx.count("reencoding_changed_dense_content")
                ctx.evaluation(hh + repr(enc) + "dense", True)
                ctx.violation("reencoding-changes-content:axes=%d%s" % (dense[d].ndim, ",renormalised" if renorm and d == 0 else ""),
                              "re-expressing dimension %d with common value %r%s changes its dense content (also a C06 matter)"
                              % (d, int(v), " and re-normalising" if renorm and d == 0 else ""), dict(case, enc=list(enc)))
                return
            if v != case["commons"][d]:
                changed = True
                present = bool((dense[d] == v).any())
                if v >= case["extents"][d]:
                    ctx.count("enc:to_absent_value")
                elif not present:
                    ctx.count("enc:to_empty_value_inside")
                else:
                    ctx.count("enc:to_frequent" if (dense[d] == v).sum() * 2 >= dense[d].size else "enc:to_present")
            dims.append(y)
        got = outputs(catii.ccube(dims, interacting_shape=shape), case)
        for agg in aggr.SHARED:
            ctx.count("agg:" + agg)
            ctx.evaluation(hh + repr(enc) + agg + str(renorm), changed and nonempty >= 2)
            a, b = numpy.asarray(base[agg]), numpy.asarray(got[agg])
            if a.shape != b.shape:
                ctx.violation("shape:" + aggr.feature_key(case, agg, "ccube"), "output shape changes with the encoding", dict(case, enc=list(enc)))
                return
            ma, mb = numpy.isnan(a), numpy.isnan(b)
            if not numpy.array_equal(ma, mb):
                pos = tuple(int(i) for i in numpy.argwhere(ma != mb)[0])
                ctx.violation("missing-changes:%s" % aggr.feature_key(case, agg, "ccube"),
                              "%s: cell %r is %s under commons %r but %s under commons %r"
                              % (agg, pos, "missing" if ma[pos] else "present", case["commons"],
                                 "missing" if mb[pos] else "present", list(enc)), dict(case, enc=list(enc)))
                return
            ok = ~ma
            if ok.any() and not numpy.all(numpy.abs(a[ok] - b[ok]) <= 2 * tols[agg]):
                pos = tuple(int(i) for i in numpy.argwhere(ok & ~(numpy.abs(a - b) <= 2 * tols[agg]))[0])
                ctx.violation("value-changes:%s" % aggr.feature_key(case, agg, "ccube"),
                              "%s: cell %r is %r under commons %r but %r under commons %r"
                              % (agg, pos, a[pos], case["commons"], b[pos], list(enc)), dict(case, enc=list(enc)))
                return
    # the same cube OBJECT, with one of its dimensions re-encoded in place between two evaluations
    live = [x.copy() for x in base_dims]
    cube = catii.ccube(live, interacting_shape=shape)
    first = outputs(cube, case)
    d = int(rng.integers(0, len(live)))
    cand2d = [i for i, a in enumerate(dense) if a.ndim > 1]
    if cand2d and rng.random() < 0.7:
        d = cand2d[int(rng.integers(0, len(cand2d)))]
    v = int(rng.integers(0, case["extents"][d] + 1))
    live[d].shift_common(v)
    if rng.random() < 0.3:
        live[d].shift_common()
    second = outputs(cube, case)
    ctx.count("enc:in_place_on_a_used_cube")
    for agg in aggr.SHARED:
        a0, a1, a2 = numpy.asarray(base[agg]), numpy.asarray(first[agg]), numpy.asarray(second[agg])
        ctx.evaluation(hh + "inplace%d:%d" % (d, v) + agg, v != case["commons"][d] and nonempty >= 2)
        for label, b in (("first evaluation", a1), ("evaluation after re-encoding dimension %d in place to common %d" % (d, v), a2)):
            if a0.shape != b.shape or not numpy.array_equal(numpy.isnan(a0), numpy.isnan(b)) or \
                    not numpy.all(numpy.abs(a0[~numpy.isnan(a0)] - b[~numpy.isnan(b)]) <= 2 * tols[agg]):
                ctx.violation("in-place-reencoding-on-used-cube:%s" % aggr.feature_key(case, agg, "ccube"),
                              "%s of the same cube object differs from the original encoding's output (%s)" % (label, agg),
                              dict(case, enc=[d, v]))
                return
    if ctx.evals % 900 < 40 and len(ctx.samples) < 4:
        ctx.sample({"dense": dense, "original_commons": case["commons"], "encodings_tried": len(encodings),
                    "fact": case["fact"]["values"], "weights": case["weights"]})
