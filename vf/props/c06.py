"""C06 - index operations track NumPy on the dense array over any history.

Oracle: NumPy model carried beside every live index (vf/histories.py)."""
from .. import histories

META = {
    "level": "exploration",
    "rule": ("history = seeded sequence of 1-15 operations from {shift_common(), shift_common(v), append, update, filtered, sliced, slices1d, reindexed (7 mapping kinds + default), collapsed, copy, column_stack, entry-wise set updates, observations, INDX save/load, from_array} over a pool of live indexes (1-D, 2-D, 3-D for slicing) paired with NumPy models; every live object of the pool is re-checked after every step; masks / order lists / mappings re-used after in-place changes; counts, mappings and common values given as NumPy scalars; INDX-loaded read-only arrays kept; sparse 2-D indexes of >2^22 cells; append onto ~2^32 rows with a sparse model; evaluations = operations executed and judged. Non-trivial: history with >=2 steps of different kinds on an index with >=2 distinct values; distinct by hash of the operation log"),
    "require": {t: ["op:shift_common", "op:shift_common_v", "op:append", "op:update", "op:filtered", "op:sliced",
                    "op:slices1d", "op:reindexed", "op:reindexed_default", "op:collapsed", "op:copy",
                    "op:column_stack", "op:set_update", "op:observe", "op:indx_save_load", "op:from_array",
                    "observe:checked", "set_update:checked", "op:set_update_inplace", "bystanders:checked",
                    "class:index_with_more_than_2^22_cells"] for t in ("quick", "thorough")},
    "assumptions": [
        "slices1d: every slice must be yielded once, labelled with its own higher coordinates; the order of the slices is not judged",
        "sliced is given one argument per higher axis; order lists are duplicate-free",
        "precedence lists are duplicate-free (a precedence order lists each value once)",
        "entry-wise set updates are judged at the entry level on scratch copies (they do not preserve dense semantics)"],
}
META["rule"] += "; round 7: 'medium' histories (entries of more than 1000 row ids; grow, derive an index that may share storage, grow both; every live bystander re-read after each step); entry-wise set updates on receivers with long entries and operands drawn from the receiver's own lists; mappings with a default factory handed to reindexed (the mapping object must come back unchanged)"
for _t in META["require"]:
    META["require"][_t] = list(META["require"][_t]) + ['class:entries_of_more_than_1000_row_ids', 'set_update:operand_shares_rows_with_the_receiver']
ASPECT = "C06"


HUGE_PROFILE = {"huge": True, "first_ops": ["shift_common_v"], "ops": ["shift_common", "shift_common_v", "append", "filtered", "reindexed", "copy",
                                        "column_stack", "update", "sliced", "observe"]}


MEDIUM_PROFILE = {"medium": True, "append_rows": [3, 6, 12, 12, 40], "ops": ["append", "append", "column_stack", "sliced", "slices1d", "reindexed", "update", "copy",
                                          "filtered", "observe", "shift_common_v"],
                  # grow, derive an index that may share storage, then grow both the source and the derived one
                  "first_ops_choices": [["append", "sliced", "append", "append", "append", "append"],
                                        ["append", "column_stack", "append", "append", "append", "append"],
                                        ["update", "reindexed", "append", "append", "append", "append"],
                                        ["append", "slices1d", "append", "append", "append", "append"], []]}


def shards(tier):
    if tier == "quick":
        return [{"label": "hist%d" % i, "n": 1200} for i in range(12)] + [{"label": "huge", "n": 4, "huge": True, "mem_gib": 12},
                                                                               {"label": "giant", "n": 60, "giant": True},
                                                                               {"label": "medium0", "n": 40, "medium": True},
                                                                               {"label": "medium1", "n": 40, "medium": True}]
    return [{"label": "hist%d" % i, "n": 60000} for i in range(15)] + [{"label": "huge", "n": 60, "huge": True, "mem_gib": 12},
                                                                                 {"label": "giant", "n": 1500, "giant": True}] + \
           [{"label": "medium%d" % i, "n": 500, "medium": True} for i in range(4)]


def run_shard(ctx):
    if ctx.shard.get("giant"):
        for case in histories.giant_append_cases(ctx.rng, ctx.shard["n"]):
            histories.giant_append(ctx, ASPECT, case)
        return
    if ctx.shard.get("huge"):
        histories.run_histories(ctx, ASPECT, ctx.shard["n"], min_steps=2, max_steps=5, profile=HUGE_PROFILE)
        ctx.count("class:index_with_more_than_2^22_cells", ctx.shard["n"])
        return
    if ctx.shard.get("medium"):
        histories.run_histories(ctx, ASPECT, ctx.shard["n"], min_steps=6, max_steps=14, profile=MEDIUM_PROFILE)
        ctx.count("class:entries_of_more_than_1000_row_ids", ctx.shard["n"])
        return
    histories.run_histories(ctx, ASPECT, ctx.shard["n"])


def replay(ctx, case):
    if case.get("kind") == "giant_append":
        histories.giant_append(ctx, ASPECT, case)
        return
    histories.replay(ctx, ASPECT, case)
