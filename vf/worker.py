"""Worker process: runs one shard of one property inside the shadow environment.

    python -m vf.worker plan   <prop> <tier>
    python -m vf.worker run    <prop> <tier> <seed> <shard_index> <outfile>
    python -m vf.worker replay <prop> <replayfile> <outfile>
"""
import collections
import faulthandler
import importlib
import json
import os
import resource
import sys
import time
import traceback

import numpy

from . import util

MAX_VIOLATIONS_PER_SHARD = 25


class HarnessError(Exception):
    pass


class Ctx:
    def __init__(self, prop, tier, seed, shard_index, shard, inflight_path=None):
        self.prop = prop
        self.tier = tier
        self.seed = seed
        self.shard_index = shard_index
        self.shard = shard
        self.rng = numpy.random.default_rng([seed, int(prop[1:]), shard_index])
        self.counters = collections.Counter()
        self.nt = set()
        self.evals = 0
        self.samples = []
        self.violations = []
        self.inconclusive = []
        self.notes = []
        self.extra = {}
        self.inflight_path = inflight_path
        self.replaying = False
        self.t0 = time.time()

    # ---- bookkeeping -------------------------------------------------- #
    def count(self, key, n=1):
        self.counters[key] += n

    def evaluation(self, case, nontrivial, n=1):
        """One library execution judged.  `case` is hashed for distinctness."""
        self.evals += n
        if nontrivial:
            self.nt.add(case if isinstance(case, str) else util.case_hash(case))

    def sample(self, obj, maxn=4):
        if len(self.samples) < maxn:
            self.samples.append(util.short(obj))

    def note(self, text):
        if text not in self.notes and len(self.notes) < 20:
            self.notes.append(text)

    def inflight(self, case):
        """Record the case about to be executed (for crashes of the process)."""
        if self.inflight_path:
            with open(self.inflight_path, "w") as f:
                json.dump(util.to_jsonable(case), f)

    def violation(self, key, message, case):
        """key: mechanism key (input features + failure signature), never a seed."""
        self.count("violations")
        if len(self.violations) < MAX_VIOLATIONS_PER_SHARD:
            self.violations.append(
                {"key": key, "message": str(message)[:2000], "case": util.to_jsonable(case)}
            )

    def full(self):
        return len(self.violations) >= MAX_VIOLATIONS_PER_SHARD

    def result(self):
        return {
            "shard_index": self.shard_index,
            "shard": self.shard,
            "evaluations": self.evals,
            "nt": sorted(self.nt),
            "counters": dict(self.counters),
            "samples": self.samples,
            "violations": self.violations,
            "inconclusive": self.inconclusive,
            "notes": self.notes,
            "extra": self.extra,
            "wall_s": time.time() - self.t0,
        }


def blame(exc):
    """Who raised: 'library' if the innermost frame belonging to either catii or
    the harness is catii's; 'harness' otherwise."""
    tb = traceback.extract_tb(exc.__traceback__)
    shadow = os.environ.get("CATII_SHADOW", "\0")
    where = None
    for fr in reversed(tb):
        fn = fr.filename
        if fn.startswith(shadow) or "/catii/" in fn or "set_operations" in fn:
            where = "library"
            site = "%s:%s" % (os.path.basename(fn), fr.name)
            break
        if "/vf/" in fn:
            where = "harness"
            site = "%s:%s" % (os.path.basename(fn), fr.name)
            break
    if where is None:
        where, site = "harness", "?"
    return where, site


def run_cases(ctx, mod):
    """Generic loop: mod.cases(ctx) yields cases, mod.judge(ctx, case) judges them.
    A library exception escaping judge is a violation ('raises'); a harness
    exception makes the shard inconclusive."""
    twins = getattr(mod, "twins", None)
    for case in mod.cases(ctx):
        if ctx.full():
            break
        t1 = time.time()
        safe_judge(ctx, mod, case)
        if os.environ.get("VF_SLOW") and time.time() - t1 > float(os.environ["VF_SLOW"]):
            open(os.environ.get("VF_SLOW_LOG", "/dev/shm/vf-slow.log"), "a").write("SLOW %.1fs %s\n" % (time.time() - t1, str(util.short(case))[:1500]))
        if twins is not None:
            # cases with the same structural signature as the one just judged (same shapes, lengths, common values,
            # numbers of entries) but other content, judged straight afterwards in the same process: everything the
            # first case allocated has been freed, so the allocator hands the same addresses to the twin's objects -
            # whatever the library remembered about the first case by object identity is stale now
            for twin in twins(ctx, case):
                ctx.count("twin_cases")
                safe_judge(ctx, mod, twin)


def safe_judge(ctx, mod, case):
    try:
        mod.judge(ctx, case)
    except HarnessError:
        raise
    except MemoryError as e:
        where, site = blame(e)
        if where == "library":
            ctx.violation("raises:MemoryError@" + site, "MemoryError in library: %s" % e, case)
        else:
            raise
    except Exception as e:
        where, site = blame(e)
        if where == "library":
            ctx.violation(
                "raises:%s@%s" % (type(e).__name__, site),
                "library raised %s: %s\n%s" % (type(e).__name__, e, traceback.format_exc()[-1500:]),
                case,
            )
        else:
            raise


def main(argv):
    cmd, prop = argv[0], argv[1]
    mod = importlib.import_module("vf.props." + prop.lower())
    if cmd == "plan":
        tier = argv[2]
        print("PLAN " + json.dumps({"meta": mod.META, "shards": mod.shards(tier)}))
        return 0

    faulthandler.enable()
    from .build import assert_shadow_loaded

    ok, files = assert_shadow_loaded()

    if cmd == "run":
        tier, seed, shard_index, outfile = argv[2], int(argv[3]), int(argv[4]), argv[5]
        shard = mod.shards(tier)[shard_index]
        if os.environ.get("CATII_VARIANT") != "asan":
            lim = int(shard.get("mem_gib", 6)) << 30
            resource.setrlimit(resource.RLIMIT_AS, (lim, lim))
        ctx = Ctx(prop, tier, seed, shard_index, shard, inflight_path=outfile + ".inflight")
    else:
        replayfile, outfile = argv[2], argv[3]
        with open(replayfile) as f:
            rp = json.load(f)
        ctx = Ctx(prop, rp.get("tier", "quick"), rp.get("seed", 0), rp.get("shard_index", 0),
                  rp.get("shard", {}), inflight_path=outfile + ".inflight")
        ctx.replaying = True

    if not ok:
        ctx.inconclusive.append("catii not imported from the shadow package: %r" % (files,))
    else:
        try:
            if cmd == "run":
                if hasattr(mod, "run_shard"):
                    mod.run_shard(ctx)
                else:
                    run_cases(ctx, mod)
            else:
                case = util.from_jsonable(rp["case"])
                if hasattr(mod, "replay"):
                    mod.replay(ctx, case)
                else:
                    safe_judge(ctx, mod, case)
        except Exception:
            ctx.inconclusive.append("harness error: " + traceback.format_exc()[-3000:])

    with open(outfile + ".tmp", "w") as f:
        json.dump(ctx.result(), f)
    os.replace(outfile + ".tmp", outfile)
    return 0


if __name__ == "__main__":
    sys.exit(main(sys.argv[1:]))
