"""Shadow package: a fresh copy of the working-tree catii sources plus the
Cython kernel compiled from the working-tree .pyx in one of three variants.

    plain  .pyx unmodified, gcc -O2
    bc     every boundscheck(False) textually turned on (wraparound left as in the source), gcc -O1
    asan   .pyx unmodified, clang-14 -fsanitize=address,undefined (recover mode)

Compiled objects are cached under /verif/.build keyed by the hash of the
.pyx bytes, the variant and the tool versions.
"""
import fcntl
import glob
import hashlib
import os
import re
import shutil
import subprocess
import sys
import sysconfig
import tempfile

from . import PYTHON, VERIF_ROOT, catii_src

CACHE = os.path.join(VERIF_ROOT, ".build")
EXT_SUFFIX = ".cpython-312-x86_64-linux-gnu.so"
ASAN_RT = None


def asan_runtime():
    global ASAN_RT
    if ASAN_RT is None:
        c = glob.glob("/usr/lib/llvm-14/lib/clang/*/lib/linux/libclang_rt.asan-x86_64.so")
        ASAN_RT = c[0] if c else ""
    return ASAN_RT


def _tool_versions():
    out = subprocess.run(
        [PYTHON, "-c",
         "import sys,numpy,Cython,sysconfig;"
         "print(sys.version);print(numpy.__version__);print(Cython.__version__);"
         "print(numpy.get_include());print(sysconfig.get_paths()['include']);"
         "print(sysconfig.get_config_var('EXT_SUFFIX'))"],
        capture_output=True, text=True, check=True).stdout.splitlines()
    return out


def bc_transform(text):
    """Turn bounds checking on everywhere.  The wraparound setting is left as the source has it: where it is
    off (as in the production build) a negative index is NOT re-interpreted as counting from the end - it is out of
    bounds and raises IndexError under the bounds check, which is what the production build would silently read."""
    t = re.sub(r"boundscheck\s*\(\s*False\s*\)", "boundscheck(True)", text)
    t = re.sub(r"boundscheck\s*=\s*False", "boundscheck=True", t)
    # `with nogil:` blocks cannot raise IndexError without the GIL in older
    # Cythons; Cython 3 acquires it on error, so nothing else is needed.
    return t


def bc_stats(text):
    """How many bounds-check switches the source has, and how many are still off
    after the transform (must be 0 for the bc build to mean anything)."""
    t = bc_transform(text)
    off = len(re.findall(r"boundscheck\s*(\(|=)\s*False", t))
    on = len(re.findall(r"boundscheck\s*(\(|=)\s*True", t))
    return {"boundscheck_on": on, "boundscheck_still_off": off}


FLAGS = {
    "plain": ("gcc", ["-O2", "-fno-strict-overflow", "-fPIC", "-w"], ["-shared"]),
    "bc": ("gcc", ["-O1", "-fno-strict-overflow", "-fPIC", "-w"], ["-shared"]),
    "asan": (
        "clang-14",
        ["-O1", "-g", "-fno-omit-frame-pointer", "-fPIC", "-w",
         "-fsanitize=address,undefined", "-fsanitize-recover=address,undefined",
         "-fno-sanitize=function,vptr"],
        ["-shared", "-fsanitize=address,undefined", "-shared-libasan"],
    ),
}


def compile_kernel(pyx_path, variant):
    """Return the path of the cached .so for this .pyx and variant (building it
    if necessary)."""
    os.makedirs(CACHE, exist_ok=True)
    with open(pyx_path, "rb") as f:
        pyx = f.read()
    versions = _tool_versions()
    numpy_inc, py_inc = versions[-3], versions[-2]
    cc, cflags, ldflags = FLAGS[variant]
    modname = os.path.splitext(os.path.basename(pyx_path))[0]
    key = hashlib.sha256(
        b"\0".join([bc_transform(pyx.decode()).encode() if variant == "bc" else pyx, modname.encode(), variant.encode(), repr((cc, cflags, ldflags)).encode(),
                    "\n".join(versions).encode()])).hexdigest()[:24]
    target = os.path.join(CACHE, "%s-%s%s" % (variant, key, EXT_SUFFIX))
    if os.path.exists(target):
        os.utime(target)
        return target
    lock = open(os.path.join(CACHE, ".lock"), "w")
    fcntl.flock(lock, fcntl.LOCK_EX)
    try:
        if os.path.exists(target):
            return target
        work = tempfile.mkdtemp(prefix="catii-vf-build-")
        try:
            src = pyx.decode("utf-8")
            if variant == "bc":
                src = bc_transform(src)
            p = os.path.join(work, modname + ".pyx")
            with open(p, "w") as f:
                f.write(src)
            # .pxd / .pxi files of the package may be cimported / included
            for extra in os.listdir(os.path.dirname(pyx_path)):
                if extra.endswith((".pxd", ".pxi")):
                    shutil.copy2(os.path.join(os.path.dirname(pyx_path), extra), os.path.join(work, extra))
            r = subprocess.run(
                [PYTHON, "-m", "cython", "-3", p, "-o",
                 os.path.join(work, modname + ".c")],
                capture_output=True, text=True, cwd=work)
            if r.returncode != 0:
                raise RuntimeError("cython failed:\n" + r.stdout + r.stderr)
            so = os.path.join(work, "out.so")
            r = subprocess.run(
                [cc] + cflags + ["-I", numpy_inc, "-I", py_inc,
                                 "-DNPY_NO_DEPRECATED_API=NPY_1_7_API_VERSION",
                                 os.path.join(work, modname + ".c")]
                + ldflags + ["-o", so],
                capture_output=True, text=True, cwd=work)
            if r.returncode != 0:
                raise RuntimeError("%s failed:\n%s%s" % (cc, r.stdout, r.stderr[-4000:]))
            os.replace(so, target + ".tmp")
            os.replace(target + ".tmp", target)
        finally:
            shutil.rmtree(work, ignore_errors=True)
        # keep the cache small: newest 18 objects
        objs = sorted(glob.glob(os.path.join(CACHE, "*" + EXT_SUFFIX)), key=os.path.getmtime)
        for old in objs[:-18]:
            try:
                os.unlink(old)
            except OSError:
                pass
        return target
    finally:
        fcntl.flock(lock, fcntl.LOCK_UN)
        lock.close()


class Shadow:
    """A temporary directory <root>/catii with fresh sources + compiled kernel."""

    def __init__(self, variant="plain", src=None):
        self.variant = variant
        self.src = src or catii_src()
        base = "/dev/shm" if os.path.isdir("/dev/shm") and os.access("/dev/shm", os.W_OK) else None
        self.root = tempfile.mkdtemp(prefix="catii-shadow-%s-" % variant, dir=base)
        pkg = os.path.join(self.root, "catii")
        os.makedirs(pkg)
        for name in os.listdir(self.src):
            if name.endswith((".py", ".pyx", ".pxd")):
                shutil.copy2(os.path.join(self.src, name), os.path.join(pkg, name))
        # every Cython module of the package is compiled from the working tree (today: set_operations)
        self.bc = {"boundscheck_on": 0, "boundscheck_still_off": 0}
        for name in sorted(os.listdir(self.src)):
            if name.endswith(".pyx"):
                so = compile_kernel(os.path.join(self.src, name), variant)
                shutil.copy2(so, os.path.join(pkg, os.path.splitext(name)[0] + EXT_SUFFIX))
                with open(os.path.join(self.src, name)) as f:
                    st = bc_stats(f.read())
                for k in self.bc:
                    self.bc[k] += st[k]
        self.pkg = pkg

    def env(self, extra=None):
        env = dict(os.environ)
        env["PYTHONPATH"] = self.root + os.pathsep + VERIF_ROOT
        env["PYTHONHASHSEED"] = "0"
        env["CATII_SHADOW"] = self.root
        env["CATII_VARIANT"] = self.variant
        env["CATII_BC_STATS"] = "%d,%d" % (self.bc["boundscheck_on"], self.bc["boundscheck_still_off"])
        env["PYTHONDONTWRITEBYTECODE"] = "1"
        env.setdefault("OMP_NUM_THREADS", "1")
        env.setdefault("OPENBLAS_NUM_THREADS", "1")
        env.setdefault("MKL_NUM_THREADS", "1")
        if self.variant == "asan":
            env["LD_PRELOAD"] = asan_runtime()
            env["PYTHONMALLOC"] = "malloc"
            env["ASAN_OPTIONS"] = (
                "detect_leaks=0:halt_on_error=0:abort_on_error=0:"
                "allocator_may_return_null=1:detect_odr_violation=0:"
                "handle_segv=0:symbolize=1:log_path=stderr")
            env["UBSAN_OPTIONS"] = "print_stacktrace=1:halt_on_error=0"
            env["ASAN_SYMBOLIZER_PATH"] = "/usr/bin/llvm-symbolizer-14"
        if extra:
            env.update(extra)
        return env

    def close(self):
        shutil.rmtree(self.root, ignore_errors=True)

    def __enter__(self):
        return self

    def __exit__(self, *a):
        self.close()


def assert_shadow_loaded():
    """Called inside a worker: catii must come from the shadow directory."""
    import catii
    import catii.set_operations as so

    root = os.environ.get("CATII_SHADOW", "")
    ok = bool(root) and catii.__file__.startswith(root) and so.__file__.startswith(root)
    return ok, (catii.__file__, so.__file__)


if __name__ == "__main__":
    v = sys.argv[1] if len(sys.argv) > 1 else "plain"
    with Shadow(v) as s:
        print(s.root, os.listdir(s.pkg))
        r = subprocess.run(
            [PYTHON, "-c",
             "import catii, catii.set_operations as s, numpy;"
             "print(catii.__file__, s.__file__);"
             "print(s.union(numpy.array([1,3],dtype='uint32'), numpy.array([2,3],dtype='uint32')))"],
            env=s.env(), capture_output=True, text=True)
        print(r.stdout, r.stderr[-2000:])
