"""C15 - library-chosen common value is a most frequent value; equality is canonical.

Oracle: value counts on the NumPy model; the (shape, common, dense content)
triple against a twin built with the constructor only."""
from .. import histories

META = {
    "level": "exploration",
    "rule": ("histories as in C06; after each library-chosen normalisation (from_array without common, "
             "shift_common(), append, filtered, collapsed) count(common) must equal the maximum count; after every "
             "step the index is compared (==, != both directions) with its constructor-built twin, with twins perturbed "
             "in one cell / shape / common, and with non-indexes. Non-trivial: a value tie occurred or the most "
             "frequent value changed during the history; distinct by hash of the operation log"),
    "require": {t: ["mf:checked", "mf:tie", "eq:comparisons", "op:append", "op:filtered", "op:collapsed",
                    "op:shift_common", "op:from_array", "from_array:options_reused"] for t in ("quick", "thorough")},
    "assumptions": ["objects that are not well-formed (C07's business) or whose dense content left the model (C06's) "
                    "end their history and are counted, not judged here"],
}
ASPECT = "C15"


def shards(tier):
    if tier == "quick":
        return [{"label": "hist%d" % i, "n": 800} for i in range(12)]
    return [{"label": "hist%d" % i, "n": 30000} for i in range(16)]


def run_shard(ctx):
    histories.run_histories(ctx, ASPECT, ctx.shard["n"])


def replay(ctx, case):
    histories.replay(ctx, ASPECT, case)
