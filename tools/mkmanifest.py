#!/venv/bin/python
"""Regenerate /verif/MANIFEST.json from the table below (kept in one place so
the manifest is always schema-valid)."""
import json
import os
import subprocess

ROOT = os.path.dirname(os.path.dirname(os.path.abspath(__file__)))

# id -> (level, technique, level text, level note, design section)
CHECKS = {
    "C01": ("exploration",
            "differential reference-model monitor (NumPy) over stratified generated inputs + source-text line probe of construction arms",
            "Thousands (quick) to ~2*10^5 (thorough) real from_array/to_array round trips over the cross product of shape, "
            "alphabet (dtype boundaries to 2^63-1, negatives), sparsity, common, counts, mapping and way-back classes are "
            "compared element-wise with the (mapped) input; input classes that select each construction strategy are "
            "required to occur, and a sys.monitoring line probe reports which arm each case executed.",
            "Held on the generated inputs only; integer categories; N=0 without common/mapping is refused by contract and not generated.",
            "DESIGN.md section 2 C01"),
    "C06": ("exploration",
            "history + executable model: NumPy model carried beside every live index through seeded operation histories",
            "Seeded histories of 1-15 operations over a pool of live indexes; after every step the receiver and every "
            "result are compared with the NumPy model (to_array), operands are byte-snapshotted, requested copies are "
            "checked for shared storage, observations (get/items/to_dict/common_rowids) and entry-wise set updates are "
            "compared with the model. 3*10^4 (quick) to ~3*10^6 (thorough) judged operations.",
            "Sampled histories; slices1d order, duplicate precedence/order lists and short sliced() argument lists are "
            "deliberately not demanded (see DESIGN.md).",
            "DESIGN.md section 2 C06"),
    "C07": ("exploration",
            "invariant at quiescent points: library validator + range/arity/non-emptiness conditions after every step of a history",
            "The C06 history engine with the well-formedness oracle: validate(True) plus the conditions it does not check, "
            "and the named consequences (abscissae, sparsity, inferred cube shape), evaluated after each top-level call returns.",
            "Transient states inside operations are not inspected; sampled histories.",
            "DESIGN.md section 2 C07"),
    "C08": ("exploration",
            "set-algebra oracle over an exhaustive small-universe enumeration + in-situ kernel-call monitor",
            "All ordered pairs of subsets of a 7- (quick) / 9-element (thorough) universe under four order-preserving "
            "embeddings into uint32 (incl. 0 and 2^32-1) through the three kernels and three wrappers, structured random "
            "arrays up to 10^5 elements, the None/copy conventions, multi-way unions, and every kernel call made by real "
            "cube walks and set updates (wrappers installed at every binding site) are judged against Python set arithmetic.",
            "Exhaustive only within the stated universe; random beyond it.",
            "DESIGN.md section 2 C08"),
    "C09": ("exploration",
            "sanitizers: AddressSanitizer+UBSan rebuild and bounds-checked rebuild of the working-tree .pyx, stderr-growth monitor per call",
            "Every ordered pair of subsets of a 6- (quick) / 8-element (thorough) universe, each operand presented as own "
            "allocation / view inside a larger buffer / strided view / read-only array, runs through the kernels of an "
            "ASan+UBSan build (red zones around each NumPy allocation; report tied to the call in flight; a libc over-read "
            "canary proves the pipeline is live) and of a bounds-checked build (IndexError per out-of-range memoryview "
            "access, also inside larger buffers); plus multi-way unions and in-situ cube walks on both builds.",
            "A clean run is absence of reports on the executions produced, not memory safety; raw-pointer code would "
            "escape the bounds-checked build, intra-buffer overruns escape ASan.",
            "DESIGN.md section 2 C09"),
    "C10": ("exploration",
            "round-trip monitor on real files over word-size/arity/emptiness classes",
            "Generated entry sets (arity 1-4, 0-5000 entries, coordinate and common magnitudes drawn independently from "
            "the four word-size classes, empty and long row-id arrays, ids to 2^32-1) and well-formed indexes are saved to "
            "real files and loaded back; common, key set, key element types, association, array dtype and content, and the "
            "rebuilt index (== and validate) are compared.",
            "Sampled inputs; a symmetric writer/reader change is C11's business.",
            "DESIGN.md section 2 C10"),
    "C11": ("exploration",
            "independent codec as oracle: byte comparison, independent decode, loader on independently encoded files, sparse-file size-field cases",
            "An encoder/decoder written from the format docstring only judges (1) the bytes written, (2) decodes them "
            "independently, (3) feeds the library loader independently written files under every admissible index-word / "
            "row-id-word size, (4) checks the size field for 2^30..2^32-1 row ids through duck-typed arrays on sparse files.",
            "The independent codec encodes my reading of the docstring (little-endian unsigned, narrowest index word, "
            "dimension byte 0 for an empty index).",
            "DESIGN.md section 2 C11"),
    "C12": ("fault_enumeration",
            "crash-point enumeration: every byte prefix of every generated file is loaded; strace write-trace monitor; SIGKILL experiment",
            "For each generated file (<= ~6 KB) every cut point 0 <= k < len is loaded from a really truncated file and "
            "must raise (1.2*10^5 cut points quick, ~4*10^6 thorough); a strace monitor confirms the writer only appends "
            "(which makes byte prefixes the complete set of torn states); thorough SIGKILLs a saving subprocess at seeded "
            "file sizes and loads what is on disk.",
            "Crash model = byte prefix (checked by the write trace); files are small so that all cut points can be enumerated.",
            "DESIGN.md section 2 C12"),
    "C15": ("exploration",
            "history + model: value counts on the NumPy model; equality against constructor-built twins and perturbed twins",
            "The C06 history engine with two oracles: after every library-chosen normalisation count(common) must be the "
            "maximum count on the model (ties free); after every step == and != (both directions) are compared with the "
            "constructor-built twin, with twins perturbed in one cell / shape / common, and with non-index objects.",
            "Sampled histories; ill-formed or model-divergent objects end their history (blame C07/C06).",
            "DESIGN.md section 2 C15"),
    "C19": ("exploration",
            "reference-model monitor (numpy.iinfo) over an exhaustive threshold partition + in-situ call monitor",
            "Every (max,min) pair of the threshold partition (all powers of two +-1, both signs, one- and two-argument "
            "forms) is executed against the real fit_dtype and judged by numpy.iinfo plus an actual store/load; "
            "thorough adds 10^6 random pairs and judges every call the library itself makes (to_array, collapsed, "
            "INDX save) through a wrapper installed at both binding sites. Exhaustive over the partition, sampled elsewhere.",
            "Trusts numpy.iinfo; the partition is induced by powers of two, so a threshold at a non-power-of-two "
            "constant would only be seen by the random pairs.",
            "DESIGN.md section 2 C19"),
}

PENDING_REASON = "check not built yet in this session (work in progress; runtime monitoring does apply, see DESIGN.md)"


def main():
    props = [json.loads(l)["id"] for l in open(os.path.join(ROOT, "properties.jsonl"))]
    try:
        fixes = subprocess.run(["git", "-C", "/repo", "log", "--format=%h %s", "--grep=^fix:"],
                               capture_output=True, text=True).stdout.strip().splitlines()
    except Exception:
        fixes = []
    checks = []
    for pid in props:
        if pid not in CHECKS:
            continue
        level, technique, text, note, ref = CHECKS[pid]
        checks.append({
            "property_id": pid,
            "quick_cmd": "./check %s --tier quick" % pid,
            "thorough_cmd": "./check %s --tier thorough" % pid,
            "evidence_file": "/verif/evidence/%s.json" % pid,
            "replay_cmd_template": "./check %s --replay {path}" % pid,
            "engine": "vf",
            "level_claimed": {"category": level, "text": text, "design_ref": ref},
            "level_note": note,
            "technique": technique,
        })
    manifest = {
        "version": 1,
        "setup_cmd": "./setup.sh",
        "hooks": {
            "guard": "CATII_VERIF",
            "enable": "no hooks are compiled into /repo: every monitor is installed from the harness (wrappers at "
                      "every binding site, sys.monitoring probes, sanitizer rebuilds of the working-tree .pyx); the "
                      "guard name exists for form only",
            "baseline_off_cmd": "cd /repo && /venv/bin/python -m pytest -ra -q -p no:cacheprovider --timeout=900 "
                                "--continue-on-collection-errors",
            "source_commits": [],
            "add_only": True,
        },
        "engines": [{
            "name": "vf",
            "path": "/verif/vf",
            "serves_properties": [c["property_id"] for c in checks],
            "kind_free_text": "runtime monitoring: shadow copy of the working tree + kernel rebuilt from the .pyx "
                              "(plain / bounds-checked / ASan+UBSan), sharded subprocess workers, reference-model "
                              "oracles, event-log checkers, deterministic thread scheduler",
        }],
        "checks": checks,
        "notes": "Exit codes: 0 held on what was observed, 1 VIOLATION, 2 INCONCLUSIVE (a deciding monitor was not "
                 "reached or a watchdog fired). Repository repairs (fix: commits) are listed in known_findings.json.",
        "not_applicable": [{"property_id": p, "reason": PENDING_REASON} for p in props if p not in CHECKS],
    }
    with open(os.path.join(ROOT, "MANIFEST.json"), "w") as f:
        json.dump(manifest, f, indent=1)
        f.write("\n")
    print("MANIFEST.json: %d checks, %d not_applicable" % (len(checks), len(manifest["not_applicable"])))


if __name__ == "__main__":
    main()
