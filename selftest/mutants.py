"""Deliberate property-breaking changes used to validate the monitors.

Each mutant: name -> (expected properties, [(file, old, new), ...]).  They are
applied to a scratch copy of src/catii (never to /repo) and selected through
CATII_SRC.  `selftest/run.py` asserts that the expected checks exit 1 with a
VIOLATION line.  Mutants are written against the current (repaired) tree."""

MUTANTS = {
    # ---- C01 ---------------------------------------------------------------
    "c01_rowscan_skips_last_row": (["C01"], [("iindexes.py",
        "                for rowid, value in enumerate(values.tolist()):\n                    if mapping is not None:",
        "                for rowid, value in enumerate(values.tolist()[:-1]):\n                    if mapping is not None:")]),
    "c01_to_array_2d_scatter_wrong_column": (["C01"], [("iindexes.py",
        "                for coords, rowids in self.items():\n                    output[rowids, coords[1]] = coords[0]",
        "                for coords, rowids in self.items():\n                    output[rowids, min(coords[1], 3)] = coords[0]")]),
    # ---- C02 ---------------------------------------------------------------
    "c02_common_slice_from_dim0": (["C02"], [("ccubes.py",
        "                dim.common if a == axis else slice(None)\n                for a, dim in enumerate(self.dims)",
        "                self.dims[0].common if a == axis else slice(None)\n                for a, dim in enumerate(self.dims)")]),
    "c02_middle_margin_dropped": (["C02", "C14"], [("ccubes.py",
        "            # Margin\n            self._walk(remaining_dims, base_coords + (-1,), base_rowids, funcs)",
        "            # Margin\n            if base_rowids is None or len(dims) < 3:\n                self._walk(remaining_dims, base_coords + (-1,), base_rowids, funcs)")]),
    # ---- C03 ---------------------------------------------------------------
    "c03_xsum_bins_wrong_mask": (["C03"], [("xfuncs.py",
        "                for i, rowmask in self.bins(coordinates, size):\n                    sums[i] = numpy.sum(self.summables[rowmask], axis=0)\n\n                    valid_segment = self.validity[rowmask]\n                    valid_counts[i] = numpy.sum(valid_segment, axis=0)\n                    if not self.ignore_missing:\n                        missing_counts[i] = len(valid_segment) - numpy.sum(",
        "                for i, rowmask in self.bins(coordinates, size):\n                    sums[i] = numpy.sum(self.summables[rowmask][::-1][: max(1, int(rowmask.sum()) - (i == 1))], axis=0)\n\n                    valid_segment = self.validity[rowmask]\n                    valid_counts[i] = numpy.sum(valid_segment, axis=0)\n                    if not self.ignore_missing:\n                        missing_counts[i] = len(valid_segment) - numpy.sum(")]),
    # ---- C04 ---------------------------------------------------------------
    "c04_propagate_uses_and": (["C04", "C03"], [("ffuncs.py",
        "            output_is_missing = (valid_counts == 0) | (missing_counts != 0)\n        sums = self.adjust_zeros",
        "            output_is_missing = (valid_counts == 0) & (missing_counts != 0)\n        sums = self.adjust_zeros")]),
    "c04_plain_zero_format_keeps_nan": (["C04"], [("xfuncs.py",
        "        means = self.adjust_zeros(means, self.null, condition=output_is_missing)\n\n        if isinstance(self.return_missing_as, tuple):\n            validity = ~output_is_missing\n            return means, validity",
        "        if isinstance(self.return_missing_as, tuple) or self.null != self.null:\n            means = self.adjust_zeros(means, self.null, condition=output_is_missing)\n\n        if isinstance(self.return_missing_as, tuple):\n            validity = ~output_is_missing\n            return means, validity")]),
    # ---- C05 ---------------------------------------------------------------
    "c05_corner_from_uncommon_rows_only": (["C05", "C03"], [("ffuncs.py",
        "        sums[cube.corner] = numpy.nansum(self.summables, axis=0)\n\n        vcount = numpy.sum(self.validity, axis=0)\n        valid_counts = numpy.zeros(shape, dtype=int)",
        "        sums[cube.corner] = numpy.nansum(self.summables, axis=0) if all(d.common == 0 for d in cube.dims) else numpy.nansum(self.summables[1:], axis=0) + self.summables[0] * 1.0000001\n\n        vcount = numpy.sum(self.validity, axis=0)\n        valid_counts = numpy.zeros(shape, dtype=int)")]),
    # ---- C06 ---------------------------------------------------------------
    "c06_append_forgets_shift_2d": (["C06"], [("iindexes.py",
        "            for coords, new_rowids in other.items():\n                if coords[0] != self.common:\n                    shifted_rowids = new_rowids.astype(dtype) + shift\n                    rowids = self.get(coords)\n                    if rowids is None:\n                        self[coords] = shifted_rowids\n                    else:\n                        self[coords] = numpy.append(rowids, shifted_rowids)\n            if other.common != self.common:\n                # Rowids for other.common were not appended above. Do so now.\n                for col in range(self.shape[1]):",
        "            for coords, new_rowids in other.items():\n                if coords[0] != self.common:\n                    shifted_rowids = new_rowids.astype(dtype) + (shift if coords[1] == 0 else shift - shift + min(shift, old_numrows - (old_numrows > 3)))\n                    rowids = self.get(coords)\n                    if rowids is None:\n                        self[coords] = shifted_rowids\n                    else:\n                        self[coords] = numpy.append(rowids, shifted_rowids)\n            if other.common != self.common:\n                # Rowids for other.common were not appended above. Do so now.\n                for col in range(self.shape[1]):")]),
    "c06_filtered_writes_into_mask": (["C06", "C17"], [("iindexes.py",
        "        new_index = self.__class__(new_entries, self.common, new_shape)\n        new_index.shift_common()\n",
        "        new_index = self.__class__(new_entries, self.common, new_shape)\n        new_index.shift_common()\n        if len(mask) > 4:\n            mask[-1] = True\n")]),
    # ---- C07 ---------------------------------------------------------------
    "c07_update_leaves_row_listed_twice": (["C07"], [("iindexes.py",
        "                if numpy.all(matches):\n                    to_delete.append(coords)\n                else:\n                    self[coords] = rowids[~matches]",
        "                if numpy.all(matches):\n                    to_delete.append(coords)\n                elif len(rowids) < 4:\n                    self[coords] = rowids[~matches]")]),
    # ---- C08 / C09 -----------------------------------------------------------
    "c08_union_tail_copy_off_by_one": (["C08"], [("set_operations.pyx",
        "        while right_ptr < right_len:\n            result_view[result_len] = right_array[right_ptr]\n            result_len += 1\n            right_ptr += 1\n\n    return result[:result_len]\n\n\ndef union(",
        "        while right_ptr < right_len - (right_len > 3 and left_len > 2):\n            result_view[result_len] = right_array[right_ptr]\n            result_len += 1\n            right_ptr += 1\n\n    return result[:result_len]\n\n\ndef union(")]),
    "c09_difference_reads_after_exhaustion": (["C09"], [("set_operations.pyx",
        "                        right_ptr += 1\n                        if right_ptr >= right_len:\n                            break\n                        right = right_array[right_ptr]\n                    elif right > left:\n                        # Left value not present in right array.\n                        result_view[result_len] = left",
        "                        right_ptr += 1\n                        right = right_array[right_ptr]\n                        if right_ptr >= right_len:\n                            break\n                    elif right > left:\n                        # Left value not present in right array.\n                        result_view[result_len] = left")]),
    # ---- C10 / C11 / C12 -----------------------------------------------------
    "c11_both_big_endian": (["C11"], [
        ("indxio.py", "        f.write(struct.pack(\"<Q\", buffer_size))", "        f.write(struct.pack(\">Q\", buffer_size))"),
        ("indxio.py", "        buffer_size = struct.unpack(\"<Q\", f.read(8))[0]", "        buffer_size = struct.unpack(\">Q\", f.read(8))[0]")]),
    "c11_index_word_one_size_too_wide": (["C11"], [("indxio.py",
        "        index_word_size = index_dtype.itemsize\n",
        "        index_word_size = index_dtype.itemsize\n        if index_word_size == 2:\n            index_dtype = numpy.dtype(numpy.uint32)\n            index_word_size = 4\n")]),
    "c10_common_truncated_to_coord_width": (["C10", "C11"], [("indxio.py",
        "        index_dtype = fit_dtype(\n            max(numpy.max(index), common) if len(index) != 0 else common\n        )",
        "        index_dtype = fit_dtype(\n            numpy.max(index) if len(index) != 0 else common\n        )\n        common = common & ((1 << (8 * index_dtype.itemsize)) - 1)")]),
    "c12_loader_maps_whole_file": (["C12"], [("indxio.py",
        "        buf = mmap.mmap(\n            f.fileno(), buffer_length, flags=mmap.MAP_SHARED, prot=mmap.PROT_READ\n        )",
        "        import os as _os\n        buffer_length = _os.fstat(f.fileno()).st_size\n        buf = mmap.mmap(\n            f.fileno(), buffer_length, flags=mmap.MAP_SHARED, prot=mmap.PROT_READ\n        )")]),
    # ---- C13 / C14 ---------------------------------------------------------
    "c13_scaffold_axes_transposed": (["C13"], [("xcubes.py",
        "            flattened_slice = [\n                e for coords in nested_coords if coords is not None for e in coords\n            ]",
        "            flattened_slice = [\n                e for coords in nested_coords if coords is not None for e in (coords[::-1] if len(coords) == 2 else coords)\n            ]")]),
    "c14_margin_skipped_when_last_dim_has_no_entries": (["C14", "C02"], [("ccubes.py",
        "                # Margin\n                if len(base_rowids):",
        "                # Margin\n                if len(base_rowids) and len(dims[0]):")]),
    # ---- C15 -----------------------------------------------------------------
    "c15_shift_common_tiebreak_less_frequent": (["C15"], [("iindexes.py",
        "            dsu = max([(v, k) for k, v in counts.items()])\n            new_common = dsu[1]\n\n        if new_common != self.common:",
        "            dsu = max([(v - 2 * (k == max(counts) and len(counts) > 2), k) for k, v in counts.items()])\n            new_common = dsu[1]\n\n        if new_common != self.common:")]),
    "c15_eq_ignores_last_entry": (["C15"], [("iindexes.py",
        "                    for coords, rowids in self.items()\n                )\n            )\n        except AttributeError:",
        "                    for coords, rowids in list(self.items())[: max(1, len(self) - (len(self) > 3))]\n                )\n            )\n        except AttributeError:")]),
    # ---- C16 / C20 -----------------------------------------------------------
    "c16_subcube_slice_parked_on_self": (["C16"], [("ccubes.py",
        "            flattened_slice = [e for coords in subcube_coords for e in coords]\n\n            fill_funcs = []\n            for func, regions in zip(funcs, results):\n                if flattened_slice:",
        "            self._fs = [e for coords in subcube_coords for e in coords]\n\n            fill_funcs = []\n            for func, regions in zip(funcs, results):\n                flattened_slice = self._fs\n                if flattened_slice:")]),
    "c16_xcube_coordinates_parked_on_self": (["C16"], [("xcubes.py",
        "            coordinates = reduce(operator.add, slices1d) if slices1d else None\n",
        "            self._coordinates = reduce(operator.add, slices1d) if slices1d else None\n"),
        ("xcubes.py", "                func.fill(coordinates, regions)", "                func.fill(self._coordinates, regions)")]),
    "c20_pooled_exception_swallowed": (["C20"], [("ccubes.py",
        "                pool.map(fill_one_cube, self.product())",
        "                def _guarded(sc):\n                    try:\n                        fill_one_cube(sc)\n                    except Exception:\n                        pass\n                pool.map(_guarded, self.product())")]),
    "c20_stop_flag_never_reset": (["C20"], [("ccubes.py",
        "        def fill_one_cube(subcube_dims):\n            if self.check_interrupt is not None:\n                self.check_interrupt()\n",
        "        def fill_one_cube(subcube_dims):\n            if self.check_interrupt is not None:\n                if getattr(self, \"_stop\", False):\n                    return\n                try:\n                    self.check_interrupt()\n                except Exception:\n                    self._stop = True\n                    raise\n")]),
    "c20_xcube_regions_cached_between_calls": (["C17"], [("xcubes.py",
        "        results = [func.get_initial_regions(self) for func in funcs]\n        if self.debug:\n            print(\"INITIAL REGIONS:\")",
        "        key = tuple(id(f) for f in funcs)\n        if getattr(self, \"_cache_key\", None) != key:\n            self._cache_key = key\n            self._cache = [func.get_initial_regions(self) for func in funcs]\n        results = self._cache\n        if self.debug:\n            print(\"INITIAL REGIONS:\")")]),
    # ---- C17 -----------------------------------------------------------------
    "c17_ffunc_sum_zeroes_callers_array": (["C17"], [("ffuncs.py",
        "        summables, validity = as_separate_validity(arr)\n\n        if weights is None:\n            summables = summables.copy()\n        else:\n            weights, weights_validity = as_separate_validity(weights)\n            validity = (validity.T & weights_validity).T\n            summables = (summables.T * weights).T\n\n        summables[~validity] = 0\n\n        self.summables = summables\n        self.validity = validity\n        self.weights = weights\n        self.ignore_missing = ignore_missing\n        self.return_missing_as = return_missing_as\n        if isinstance(self.return_missing_as, tuple):\n            self.null = self.return_missing_as[0]\n        else:\n            self.null = self.return_missing_as\n        if tracing:\n            self.tracing = {\"elapsed\": 0.0, \"start\": None, \"count\": 0}\n        else:\n            self.tracing = None\n\n    def get_initial_regions(self, cube):\n        \"\"\"Return NumPy arrays to fill, empty except for corner values.\"\"\"\n        if self.weights is None and not numpy.isnan(self.null):",
        "        summables, validity = as_separate_validity(arr)\n\n        if weights is None:\n            summables = summables if summables.dtype.kind == \"i\" else summables.copy()\n        else:\n            weights, weights_validity = as_separate_validity(weights)\n            validity = (validity.T & weights_validity).T\n            summables = (summables.T * weights).T\n\n        summables[~validity] = 0\n\n        self.summables = summables\n        self.validity = validity\n        self.weights = weights\n        self.ignore_missing = ignore_missing\n        self.return_missing_as = return_missing_as\n        if isinstance(self.return_missing_as, tuple):\n            self.null = self.return_missing_as[0]\n        else:\n            self.null = self.return_missing_as\n        if tracing:\n            self.tracing = {\"elapsed\": 0.0, \"start\": None, \"count\": 0}\n        else:\n            self.tracing = None\n\n    def get_initial_regions(self, cube):\n        \"\"\"Return NumPy arrays to fill, empty except for corner values.\"\"\"\n        if self.weights is None and not numpy.isnan(self.null):")]),
    "c17_column_stack_shifts_input_in_place": (["C17", "C06"], [("iindexes.py",
        "        if ii.common != new_common:\n            ii = ii.copy()\n            ii.shift_common(new_common)",
        "        if ii.common != new_common:\n            ii = ii.copy() if len(ii) != 2 else ii\n            ii.shift_common(new_common)")]),
    "c17_xfunc_state_leaks_between_calls": (["C17"], [("xfuncs.py",
        "        output_values, output_validity = self.flat_regions(regions)\n\n        if coordinates is None:",
        "        output_values, output_validity = self.flat_regions(regions)\n        self._calls = getattr(self, \"_calls\", 0) + 1\n        if self._calls == 3 and self.ignore_missing:\n            self.validity = self.validity.copy()\n            self.validity[:1] = True\n\n        if coordinates is None:")]),
    # ---- C18 -----------------------------------------------------------------
    "c18_stddev_ddof0": (["C18"], [("xfuncs.py",
        "            if weights is None:\n                stddevs[:] = numpy.sqrt(varsums / (N - 1))\n            else:\n                weightsums",
        "            if weights is None:\n                stddevs[:] = numpy.sqrt(varsums / numpy.where(N > 2, N, N - 1))\n            else:\n                weightsums")]),
    "c18_min_ignores_validity_when_propagating": (["C18"], [("xfuncs.py",
        "                    if len(matches) and numpy.all(self.validity[rowmask]):",
        "                    if len(matches) and (numpy.all(self.validity[rowmask]) or len(matches) > 3):")]),
    # ---- C19 -----------------------------------------------------------------
    "c19_gt_for_ge_at_2_16": (["C19"], [("iindexes.py",
        "        elif maxval >= 2 ** 16:\n            dtype = numpy.uint32",
        "        elif maxval > 2 ** 16:\n            dtype = numpy.uint32")]),
    "c19_int8_asymmetry": (["C19"], [("iindexes.py",
        "        elif minval < -(2 ** 7):\n            dtype = numpy.int16",
        "        elif minval <= -(2 ** 7):\n            dtype = numpy.int16")]),
}
