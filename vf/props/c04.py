"""C04 - the missing-cell rule and the three missing-value report formats agree.

Oracle: the C04 rule evaluated on the dense rows of each cell; the three report
formats (NaN in place, (sentinel, False), plain 0) must describe the same
missing set and identical values elsewhere, in both cube types."""
import numpy

from .. import aggr, gen, oracles

NaN = float("nan")
SENTINELS = [0, -1, 7, -999.5, 1e300]

META = {
    "level": "exploration",
    "rule": ("inputs as in C03, both cube types, aggregates count/valid_count/sum/mean, each evaluated under return_missing_as = NaN, (sentinel, False) for sentinel in {0,-1,7,-999.5,1e300}, and plain 0 (excluded: valid_count with a plain value under propagation, the documented shortcut); the same argument objects for all calls in every second case, the fact array edited in place between two rounds. Non-trivial: the output has both a missing and a non-missing cell and >=1 cell is missing because of a missing value (not for lack of rows); distinct by content hash"),
    "require": {t: ["format:nan", "format:tuple", "format:plain0", "cube:ccube", "cube:xcube",
                    "class:missing_in_common_category", "class:cols_different_patterns", "class:weights+facts_missing",
                    "cells:missing_by_value", "cells:missing_no_rows", "class:ignore", "class:propagate",
                    "class:cell_counter_on_boundary", "class:more_than_1024_cells", "class:cells_of_very_unequal_weight", "class:same_argument_objects_for_every_call", "class:argument_arrays_edited_in_place_between_calls"]
                for t in ("quick", "thorough")},
    "assumptions": ["a sentinel is compared as cast to the result dtype (an integer result cannot hold 2.5)",
                    "valid_count with a plain replacement value under propagation is excluded as the property states"],
}
META["rule"] += '; round 7: weights that are all exactly 1 (one case in eight)'


def shards(tier):
    if tier == "quick":
        return [{"label": "inputs%d" % i, "n": 260} for i in range(14)]
    return [{"label": "inputs%d" % i, "n": 4500} for i in range(16)]


def cases(ctx):
    for i, c in enumerate(_cases(ctx)):
        # every second case hands the SAME fact / weight objects to all of its calls (all aggregates, both cubes,
        # the three report formats), as a caller who keeps its arrays around does
        c["shared_args"] = bool(i % 2)
        yield c


def _cases(ctx):
    rng = ctx.rng
    for i in range(ctx.shard["n"]):
        if i % 40 == 29:
            c = aggr.many_cells_case(rng)
            c["sentinel"] = gen.pick(rng, SENTINELS)
            yield c
            continue
        if i % 40 == 31:
            c = aggr.unequal_cells_case(rng)
            c["sentinel"] = gen.pick(rng, SENTINELS)
            yield c
            continue
        if i % 40 == 11:
            c = aggr.counter_boundary_case(rng)
            c["sentinel"] = gen.pick(rng, SENTINELS)
            yield c
            continue
        c = gen.cube_case(rng, max_dims=3, min_dims=0, n=gen.pick(rng, [1, 2, 3, 5, 8, 17, 40, 60]))
        if rng.random() < 0.08:
            gen.add_alias(rng, c)       # one index object as two dimensions of the cube
        n = c["dense"][0].shape[0] if c["dense"] else gen.pick(rng, [1, 4, 9])
        c["n"] = n
        c.update(aggr.agg_inputs(rng, n, tiny_weights=True))
        c["sentinel"] = gen.pick(rng, SENTINELS)
        yield c


def judge(ctx, case):
    import catii

    dense = [numpy.asarray(d) for d in case["dense"]]
    dims = gen.cube_dims(case)
    n = case["n"]
    shape = case["shape"]
    exp_shape = tuple(shape) if shape is not None else gen.inferred_shape(case)
    f, w = case["fact"], case["weights"]
    fx, fv = gen.fact_parts(f)
    wx, wv = gen.weight_parts(w, n)
    ctx.count("class:ignore" if case["ignore_missing"] else "class:propagate")
    if case.get("boundary_m"):
        ctx.count("class:cell_counter_on_boundary")
    if case.get("alias"):
        ctx.count("class:same_index_object_as_two_dimensions")
    if case.get("many_cells"):
        ctx.count("class:more_than_1024_cells")
    if case.get("unequal_cells"):
        ctx.count("class:cells_of_very_unequal_weight")
    if fx.ndim == 2 and len({fv[:, k].tobytes() for k in range(fv.shape[1])}) > 1:
        ctx.count("class:cols_different_patterns")
    if wv is not None and (~wv).any() and (~fv).any():
        ctx.count("class:weights+facts_missing")
    rowmiss = ~(fv if fv.ndim == 1 else fv.all(axis=1))
    for d, c in zip(dense, case["commons"]):
        col = d if d.ndim == 1 else d.reshape(d.shape[0], -1)[:, 0]
        if n and (rowmiss & (col == c)).any():
            ctx.count("class:missing_in_common_category")
            break
    cubes = [("ccube", catii.ccube(dims, interacting_shape=shape))]
    if dense:
        cubes.append(("xcube", catii.xcube([a.astype("int64") for a in dense], interacting_shape=exp_shape)))
    else:
        cubes.append(("xcube", catii.xcube([])))
    shared = {} if case.get("shared_args") else None
    if shared is not None:
        ctx.count("class:same_argument_objects_for_every_call")
    for agg in aggr.SHARED:
        # 1e300 cannot be represented in an integer result at all (not even as a cast): only means are always float
        sentinel = case["sentinel"] if (agg == "mean" or case["sentinel"] != 1e300) else 1e15
        tol = aggr.tolerance(case, agg)
        ref_v, ref_m = aggr.reference(case, agg, dense, exp_shape)
        no_rows = oracles.reference("count", dense, exp_shape, n)[1]
        by_value = ref_m & ~(no_rows if no_rows.shape == ref_m.shape else no_rows[..., None])
        ctx.count("cells:missing_by_value", int(by_value.sum()))
        ctx.count("cells:missing_no_rows", int(ref_m.sum() - by_value.sum()))
        nt = bool(ref_m.any() and (~ref_m).any() and by_value.any())
        for cname, cube in cubes:
            ctx.count("cube:" + cname)
            feat = aggr.feature_key(case, agg, cname)
            results = {}
            for fmt, rma in (("nan", NaN), ("tuple", (sentinel, False)), ("plain0", 0)):
                if fmt == "plain0" and agg == "valid_count" and not case["ignore_missing"]:
                    ctx.count("excluded:valid_count_plain_propagate")
                    continue
                ctx.count("format:" + fmt)
                res = aggr.call(cube, agg, case, rma, shared=shared)
                ctx.evaluation({"c": {k: case[k] for k in ("dense", "commons", "shape", "fact", "weights", "ignore_missing")},
                                "a": agg, "cube": cname, "fmt": fmt, "s": sentinel}, nt)
                bad = oracles.compare(res, rma, ref_v, ref_m, tol)
                if bad:
                    ctx.violation("%s:%s:%s" % (fmt, bad[0], feat), "%s.%s(return_missing_as=%r): %s" % (cname, agg, rma, bad[1]), case)
                    return
                results[fmt] = res
            # the three formats: identical values everywhere else
            r1 = oracles.conform(numpy.asarray(results["nan"]), ref_v.shape)
            v2 = oracles.conform(numpy.asarray(results["tuple"][0]), ref_v.shape)
            ok = ~ref_m
            pairs = [("nan~tuple", r1, v2)]
            if "plain0" in results:
                pairs.append(("nan~plain0", r1, oracles.conform(numpy.asarray(results["plain0"]), ref_v.shape)))
            for label, a, b in pairs:
                # same computation reported three ways; the plain-value shortcut snaps values within
                # rounding of zero to zero, so "identical" is judged within the rounding tolerance
                if not numpy.all(numpy.abs(a[ok].astype(float) - b[ok].astype(float)) <= 2 * tol):
                    ctx.violation("formats-differ:%s:%s" % (label, feat),
                                  "%s.%s: non-missing values differ between report formats (%s)" % (cname, agg, label), case)
                    return
    # The caller's own arrays, edited IN PLACE between two calls (imputation: a missing value filled in, a value
    # struck out), and handed over again as the same objects: the second round must see the new content.
    if shared is not None and shared.get("f") is not None and n >= 2:
        fobj = shared["f"]
        vals_obj = fobj[0] if isinstance(fobj, tuple) else fobj
        if isinstance(vals_obj, numpy.ndarray) and vals_obj.dtype.kind == "f" and vals_obj.flags.writeable:
            f2 = {"values": f["values"].copy(), "validity": None if f["validity"] is None else f["validity"].copy(),
                  "dyadic": f.get("dyadic", False)}
            r0, r1 = 0, n - 1
            if f["validity"] is None:
                # NaN-marked form: row r0 becomes missing, row r1 gets a value
                for arr in (vals_obj, f2["values"]):
                    arr[r0] = numpy.nan
                    arr[r1] = 1.25
            else:
                for arr in (fobj[1], f2["validity"]):
                    arr[r0] = False
                    arr[r1] = True
                for arr in (vals_obj, f2["values"]):
                    arr[r1] = 1.25
            case2 = dict(case, fact=f2)
            ctx.count("class:argument_arrays_edited_in_place_between_calls")
            for agg in ("sum", "mean", "valid_count"):
                tol = aggr.tolerance(case2, agg)
                ref_v, ref_m = aggr.reference(case2, agg, dense, exp_shape)
                for cname, cube in cubes:
                    res = aggr.call(cube, agg, case2, NaN, shared=shared)
                    ctx.evaluation({"c": {k: case2[k] for k in ("dense", "commons", "shape", "fact", "weights", "ignore_missing")},
                                    "a": agg, "cube": cname, "fmt": "nan", "edited": True}, True)
                    bad = oracles.compare(res, NaN, ref_v, ref_m, tol)
                    if bad:
                        ctx.violation("after-in-place-edit-of-the-fact-array:%s:%s" % (bad[0], aggr.feature_key(case2, agg, cname)),
                                      "%s.%s after the caller edited its fact array in place (row %d struck out, row %d filled) and passed the same object again: %s" % (cname, agg, r0, r1, bad[1]), case2)
                        return
    if ctx.evals % 700 < 24 and len(ctx.samples) < 4:
        ctx.sample({"dense": dense, "commons": case["commons"], "fact": fx, "fact_validity": f["validity"],
                    "weights": w, "ignore_missing": case["ignore_missing"], "sentinel": sentinel})
