"""Run the repository's own tests as an additional workload under a property's
monitors (see vf/pytest_plugin.py).  Only the monitors' verdicts count."""
import json
import os
import subprocess
import sys
import tempfile

from . import catii_src


def run(ctx, prop, timeout=3000):
    root = os.path.dirname(os.path.dirname(os.path.abspath(catii_src())))
    tests = os.path.join(root, "tests")
    if not os.path.isdir(tests):
        ctx.count("repotests:absent")
        ctx.note("no tests directory beside %s: repository-test workload skipped" % catii_src())
        return
    fd, out = tempfile.mkstemp(prefix="vf-plugin-", suffix=".json")
    os.close(fd)
    env = dict(os.environ, VF_PLUGIN_PROP=prop, VF_PLUGIN_OUT=out, PYTHONDONTWRITEBYTECODE="1")
    try:
        r = subprocess.run([sys.executable, "-m", "pytest", "-q", "-p", "vf.pytest_plugin", "-p", "no:cacheprovider",
                            "--timeout=900", "-x", "--co", "-q", "tests"], cwd=root, env=env, capture_output=True,
                           text=True, timeout=600)
        r = subprocess.run([sys.executable, "-m", "pytest", "-q", "-p", "vf.pytest_plugin", "-p", "no:cacheprovider",
                            "--timeout=900", "tests"], cwd=root, env=env, capture_output=True, text=True, timeout=timeout)
        try:
            with open(out) as f:
                res = json.load(f)
        except Exception:
            ctx.inconclusive.append("repository-test workload produced no monitor output: %s" % (r.stdout + r.stderr)[-600:])
            return
        shadow = os.environ.get("CATII_SHADOW", "\0")
        if not str(res.get("catii_file", "")).startswith(shadow):
            ctx.inconclusive.append("repository tests imported catii from %r, not from the shadow" % res.get("catii_file"))
            return
        for k, v in res["counters"].items():
            ctx.count("repotests:" + k if not k.startswith("repotests") else k, v)
        ctx.count("repotests:tests_collected", res.get("tests_collected", 0))
        ctx.evals += res["evals"]
        ctx.nt.update(res["nt"])
        for v in res["violations"]:
            ctx.count("violations")
            ctx.violations.append(v)
        ctx.sample({"repository_tests_as_workload": {"tests": res.get("tests_collected"), "monitor_evaluations": res["evals"]}})
    finally:
        try:
            os.unlink(out)
        except OSError:
            pass
