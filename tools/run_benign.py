#!/venv/bin/python
"""Run ALL quick checks against a behaviour-preserving change (false-alarm hunting).

    tools/run_benign.py <change-dir> [--checks C01 C02 ...] [--skip-tests]

Applies <change-dir>/patch.diff in a scratch worktree of /repo under /tmp (removed afterwards),
rebuilds the extension if the .pyx changed, optionally runs the repository's suite, and runs the
checks with CATII_SRC pointing at the patched tree.  Any non-zero exit is printed with its keys."""
import json
import os
import re
import shutil
import subprocess
import sys
import tempfile

ROOT = os.path.dirname(os.path.dirname(os.path.abspath(__file__)))
PY = "/venv/bin/python"
ALL = ["C%02d" % i for i in range(1, 21)]
KNOWN_FAIL = {
    "tests/test_iindexes.py::TestValidate::test_type_errors",
    "tests/test_xcubes.py::TestXCubeStridedDims::test_xcube_strided_dims",
    "tests/xfuncs/test_xfunc_corrcoef.py::TestXfuncCorrCoefWorkflow::test_single_arr_with_nan_workflow",
    "tests/xfuncs/test_xfunc_corrcoef.py::TestXfuncCorrCoefWorkflow::test_tuple_factvar_workflow",
    "tests/xfuncs/test_xfunc_corrcoef.py::TestXfuncCorrCoefWorkflow::test_tuple_factvar_with_nan_workflow",
}


def sh(cmd, **kw):
    return subprocess.run(cmd, capture_output=True, text=True, **kw)


def main(argv):
    d = os.path.abspath(argv[0])
    checks, skip_tests = ALL, "--skip-tests" in argv
    if "--checks" in argv:
        i = argv.index("--checks")
        checks = [a for a in argv[i + 1:] if not a.startswith("--")]
    out = {"dir": d}
    wt = tempfile.mkdtemp(prefix="benign-wt-", dir="/tmp")
    os.rmdir(wt)
    try:
        sh(["git", "-C", "/repo", "worktree", "add", "-q", "--detach", wt, "HEAD"])
        so = [f for f in os.listdir("/repo/src/catii") if f.endswith(".so")][0]
        shutil.copy2(os.path.join("/repo/src/catii", so), os.path.join(wt, "src/catii", so))
        r = sh(["git", "-C", wt, "apply", os.path.join(d, "patch.diff")])
        if r.returncode:
            out["error"] = "apply: " + r.stderr[-300:]
            return out
        changed = sh(["git", "-C", wt, "diff", "--name-only"]).stdout.split()
        out["files"] = changed
        env = dict(os.environ, PYTHONPATH=os.path.join(wt, "src"), PYTHONHASHSEED="0")
        if any(f.endswith(".pyx") for f in changed):
            r = sh([PY, "setup.py", "build_ext", "--inplace"], cwd=wt, env=dict(env, CYTHONIZE_SETUP_PY="1"))
            if r.returncode:
                out["error"] = "build failed"
                return out
        if not skip_tests:
            r = sh([PY, "-m", "pytest", "-q", "-p", "no:cacheprovider", "-n", "6", "--timeout=900", "tests", "benchmarks"],
                   env=env, cwd=wt, timeout=3600)
            failed = set(re.findall(r"^(?:FAILED|ERROR) (\S+)", r.stdout, re.M))
            out["tests_new_failures"] = sorted(failed - KNOWN_FAIL)
        alarms = {}
        for c in checks:
            r = sh([os.path.join(ROOT, "check"), c, "--tier", "quick", "--no-evidence"],
                   env=dict(os.environ, CATII_SRC=os.path.join(wt, "src/catii")), timeout=7200)
            if r.returncode != 0:
                keys = sorted({l.strip()[4:] for l in r.stdout.splitlines() if l.strip().startswith("key=")})
                msgs = [l for l in r.stdout.splitlines() if l.startswith(("INCONCLUSIVE", "VIOLATION"))][:3]
                detail = [l.strip()[:300] for l in r.stdout.splitlines() if l.startswith("  ") and not l.strip().startswith("key=")][:4]
                alarms[c] = {"exit": r.returncode, "keys": keys[:6], "lines": [m[:300] for m in msgs], "detail": detail}
        out["alarms"] = alarms
        return out
    finally:
        sh(["git", "-C", "/repo", "worktree", "remove", "--force", wt])
        shutil.rmtree(wt, ignore_errors=True)


if __name__ == "__main__":
    print(json.dumps(main(sys.argv[1:]), indent=1))
