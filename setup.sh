#!/bin/sh
# Offline setup: warm the compiled-kernel cache (plain / bounds-checked / ASan)
# from /repo's working tree.  Checks rebuild on their own when the .pyx changes.
cd "$(dirname "$0")" || exit 1
mkdir -p evidence replay .build
for v in plain bc asan; do
  /venv/bin/python - "$v" <<'PY' || exit 1
import sys
from vf.build import compile_kernel
from vf import catii_src
import os
print(compile_kernel(os.path.join(catii_src(), "set_operations.pyx"), sys.argv[1]))
PY
done
echo setup ok
