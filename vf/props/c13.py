"""C13 - extra axes are outermost, in order, and index independent sub-cubes.

Oracle: for every combination of extra-axis positions the block of the result
must equal the same aggregate over 1-D slices made by the harness
(dense[:, j, k] -> constructor), and over the library's own sliced() variant."""
import numpy

from .. import aggr, gen, oracles

NaN = float("nan")

META = {
    "level": "exploration",
    "rule": ("1-3 dimensions, at least one with 2 or 3 axes; in two thirds of the cases pairwise different extra extents 1-6 (a transposed axis then changes the shape or a block), in one third unconstrained extents 1-4 (so that dimensions with equal extra-axis shapes occur); several multi-axis dimensions at once; ccube with the 4 shared aggregates, xcube with those and stddev/quantile/min/max/corrcoef/covariance; NaN report format; layouts (F-order, strided), in-place entry removal then recompute, self-engaged pools over a fixed ladder of sub-cube counts, one featherweight row, calculate([...]) with untraced objects, debug switch on. Non-trivial: >=2 extra-axis positions in total and pairwise different extra extents; distinct by content hash"),
    "require": {t: ["class:axes=3", "class:multi_dims>=2", "cube:ccube", "cube:xcube", "agg:covariance", "agg:count",
                    "agg:quantile", "blocks_compared", "sliced_variant_compared", "class:dims_with_equal_extra_shape",
                    "class:xcube_layout=F", "class:xcube_layout=strided", "class:entry_removed_in_place_then_recomputed",
                    "class:pool_engaged_by_the_cube_itself", "class:xcube_pool_engaged_by_the_cube_itself"] for t in ("quick", "thorough")},
    "assumptions": ["blocks are compared with the 1-D cube of the same library (the property relates the two); values within 1e-9 of the data magnitude, missing cells exactly"],
}
META["rule"] += "; round 7: dimensions held in the narrowest integer dtype that fits their values (uint8/uint16/int8) with categories x positions beyond that dtype, each position's block compared with the count of its column alone"
for _t in META["require"]:
    META["require"][_t] = list(META["require"][_t]) + ['class:narrow_storage_dtype_with_categories*positions_beyond_it']


def shards(tier):
    if tier == "quick":
        return [{"label": "cubes%d" % i, "n": 300} for i in range(13)] + \
               [{"label": "autopool-ccube", "kind": "autopool_ccube", "n": 12}, {"label": "autopool-xcube", "kind": "autopool_xcube", "mem_gib": 14}]
    return [{"label": "cubes%d" % i, "n": 8000} for i in range(14)] + \
           [{"label": "autopool-ccube", "kind": "autopool_ccube", "n": 400}, {"label": "autopool-xcube", "kind": "autopool_xcube", "mem_gib": 14}]


def cases(ctx):
    rng = ctx.rng
    for i in range(ctx.shard["n"]):
        c = gen.cube_case(rng, min_dims=1, max_dims=3, max_axes=3, multi_axis_prob=0.6, distinct_extras=bool(i % 3),
                          force_multi=True, max_extent=4, n=gen.pick(rng, [1, 2, 3, 6, 12, 30]),
                          allow_outside_common=False, explicit_shape=True)
        c["n"] = c["dense"][0].shape[0]
        c["agg"] = gen.pick(rng, aggr.SHARED + aggr.XONLY)
        if c["agg"] in aggr.SHARED:
            c.update(aggr.agg_inputs(rng, c["n"]))
            if i % 12 == 5 and c["n"] >= 2:
                # one row weighs next to nothing against the others (1 : 2^-28 ... 2^-33, exact): whether its cell
                # counts as empty must not depend on how many other blocks the cube has
                w = numpy.ones(c["n"])
                w[int(rng.integers(0, c["n"]))] = 2.0 ** -int(gen.pick(rng, [28, 29, 30, 31, 33]))
                c["weights"] = {"kind": "array", "values": w}
                c["fact"] = {"values": (rng.integers(-8, 9, size=c["n"]) / 4.0).astype(float), "validity": None, "dyadic": True}
                c["agg"] = gen.pick(rng, ["mean", "mean", "count", "valid_count"])
                c["one_featherweight_row"] = True
        else:
            c.update(aggr.xonly_inputs(rng, c["n"], c["agg"]))
        yield c


AUTOPOOL_LADDER = [[(3,)], [(), (4,)], [(5,), ()], [(7,)], [(2, 4)], [(3,), (3,)], [(16,), ()], [(17,)], [(1, 3), ()], [(3, 1)]]


def autopool_ccube(ctx):
    """Sparse index cubes of 2^28..2^31 rows with extra axes: the cube engages its pool by itself.
    Blocks of the count are compared with the count over the 1-D slices (each a serial cube)."""
    import catii
    from .c02 import sparse_case

    rng = ctx.rng
    for i in range(ctx.shard["n"]):
        if i < len(AUTOPOOL_LADDER):
            # the first cases of every run: a fixed ladder of sub-cube counts (3, 4, 5, 7, 8, 9, 16, 17 - one more and
            # one less than the usual pool sizes and their multiples), every one large enough to engage the pool
            case = sparse_case(rng, n=int(gen.pick(rng, [2 ** 29 + 3, 2 ** 30])), extras=AUTOPOOL_LADDER[i])
            ctx.count("class:autopool_subcubes=%d" % int(numpy.prod([e for ex in AUTOPOOL_LADDER[i] for e in ex])))
        else:
            for _try in range(50):
                case = sparse_case(rng)
                if any(sp["extra"] for sp in case["sparse"]):
                    break
        n = case["n"]
        specs = case["sparse"]

        def index_of(sp, pos=None):
            entries = {}
            for (cell, v) in sp["cells"]:
                if pos is None:
                    entries.setdefault((v,) + tuple(cell[1:]), []).append(cell[0])
                elif tuple(cell[1:]) == tuple(pos):
                    entries.setdefault((v,), []).append(cell[0])
            entries = {k: numpy.array(sorted(set(r)), dtype=numpy.uint32) for k, r in entries.items()}
            return catii.iindex(entries, sp["common"], (n,) + (tuple(sp["extra"]) if pos is None else ()))

        shape = tuple(sp["extent"] for sp in specs)
        cube = catii.ccube([index_of(sp) for sp in specs], interacting_shape=shape)
        sshape = tuple(e for sp in specs for e in sp["extra"])
        ctx.count("class:pool_engaged_by_the_cube_itself" if cube.parallel else "class:sparse_serial")
        ctx.count("cube:ccube")
        res = numpy.asarray(cube.count())
        ctx.evaluation({"sparse": specs, "n": n}, int(numpy.prod(sshape)) >= 2)
        if res.shape != sshape + shape:
            ctx.violation("shape:ccube:count:sparse", "result shape %r, expected %r" % (res.shape, sshape + shape), case)
            continue
        import itertools
        per = [list(numpy.ndindex(*sp["extra"])) if sp["extra"] else [()] for sp in specs]
        for pos in itertools.product(*per):
            spos = tuple(i for p in pos for i in p)
            want = numpy.asarray(catii.ccube([index_of(sp, p) for sp, p in zip(specs, pos)], interacting_shape=shape).count())
            ctx.count("blocks_compared")
            block = res[spos]
            if not numpy.array_equal(numpy.isnan(block), numpy.isnan(want)) or not numpy.array_equal(block[~numpy.isnan(block)], want[~numpy.isnan(want)]):
                ctx.violation("block-differs:ccube:count:pool=%s" % bool(cube.parallel),
                              "%d rows, %d sub-cubes, pool engaged by the cube itself: %s; block %r = %r, cube over the 1-D slices = %r"
                              % (n, int(numpy.prod(sshape)), bool(cube.parallel), spos, block.ravel()[:6].tolist(), want.ravel()[:6].tolist()), case)
                break


def autopool_xcube(ctx):
    """An array cube with 1024 sub-cubes over 2^20 rows engages its pool by itself (rows x sub-cubes = 2^30)."""
    import catii

    rng = ctx.rng
    n = 2 ** 20
    dense = [rng.integers(0, 3, size=(n, 4, 4), dtype=numpy.uint8), rng.integers(0, 2, size=(n, 4, 4), dtype=numpy.uint8),
             rng.integers(0, 3, size=(n, 4), dtype=numpy.uint8)]
    shape = (3, 2, 3)
    cube = catii.xcube(dense, interacting_shape=shape)
    ctx.count("class:xcube_pool_engaged_by_the_cube_itself" if cube.parallel else "class:xcube_serial")
    ctx.count("cube:xcube")
    res = numpy.array(cube.count(), copy=True)            # copied the moment the call returns
    ctx.evaluation({"autopool_xcube": int(dense[0][:64].sum())}, True)
    if res.shape != (4, 4, 4, 4, 4) + shape:
        ctx.violation("shape:xcube:count:autopool", "result shape %r" % (res.shape,), {"autopool": "xcube"})
        return
    if numpy.isnan(res).any():
        ctx.violation("block-differs:xcube:count:autopool", "%d cells are missing although every cell has rows"
                      % int(numpy.isnan(res).sum()), {"autopool": "xcube"})
        return
    for _ in range(10):
        pos = tuple(int(x) for x in rng.integers(0, 4, size=5))
        cols = [dense[0][:, pos[0], pos[1]], dense[1][:, pos[2], pos[3]], dense[2][:, pos[4]]]
        flat = (cols[0].astype(numpy.int64) * 2 + cols[1]) * 3 + cols[2]
        want = numpy.bincount(flat, minlength=18).reshape(shape)
        ctx.count("blocks_compared")
        if not numpy.array_equal(res[pos], want):
            ctx.violation("block-differs:xcube:count:autopool", "block %r differs from the direct count over the 1-D slices" % (pos,),
                          {"autopool": "xcube", "pos": pos})
            return


def run_shard(ctx):
    from ..worker import run_cases
    import sys as _sys

    kind = ctx.shard.get("kind")
    if kind == "autopool_ccube":
        return autopool_ccube(ctx)
    if kind == "autopool_xcube":
        return autopool_xcube(ctx)
    run_cases(ctx, _sys.modules[__name__])


def tail_shape(case, agg):
    v = case["fact"]["values"]
    k = v.shape[1:]
    if agg == "count":
        return ()
    if agg in ("corrcoef", "covariance"):
        return k + k
    return k


NARROW = [(numpy.uint8, 64, 4), (numpy.uint8, 100, 3), (numpy.uint8, 255, 2), (numpy.uint8, 16, 17), (numpy.uint8, 3, 90),
          (numpy.uint16, 300, 220), (numpy.uint16, 1000, 66), (numpy.int8, 60, 3), (numpy.uint8, 200, 6)]


def narrow_storage(ctx, case, salt):
    """Dimensions held in the narrowest integer type that fits their values (what iindex.to_array() hands out), with
    enough categories x positions that categories*positions does not fit that type: each position's block is still
    the count of that column alone."""
    import catii

    dt, ncat, extent = NARROW[salt % len(NARROW)]
    rng = numpy.random.default_rng([salt, 1313])
    n = int(rng.integers(150, 700))
    arr = rng.integers(0, ncat, size=(n, extent)).astype(dt)
    arr[rng.integers(0, n, size=5), rng.integers(0, extent, size=5)] = ncat - 1
    second = rng.integers(0, 3, size=n).astype(numpy.uint8) if salt % 3 == 1 else None
    for kind in ("xcube", "ccube"):
        if kind == "xcube":
            dims = [arr] + ([second] if second is not None else [])
        else:
            dims = [catii.iindex.from_array(arr)] + ([catii.iindex.from_array(second)] if second is not None else [])
        shape = (ncat,) + ((3,) if second is not None else ())
        cube = getattr(catii, kind)(dims, interacting_shape=shape)
        ctx.count("class:narrow_storage_dtype_with_categories*positions_beyond_it")
        ctx.count("cube:" + kind)
        res = numpy.asarray(cube.count())
        ctx.evaluation({"narrow": salt, "k": kind}, True)
        if res.shape != (extent,) + shape:
            ctx.violation("shape:%s:count:narrow-storage" % kind, "result shape %r, expected %r" % (res.shape, (extent,) + shape), case)
            return
        for j in range(extent):
            if second is None:
                want = numpy.bincount(arr[:, j].astype(numpy.int64), minlength=ncat).astype(float)
            else:
                want = numpy.zeros(shape)
                numpy.add.at(want, (arr[:, j].astype(numpy.int64), second.astype(numpy.int64)), 1)
            got = numpy.nan_to_num(res[j].astype(float), nan=0.0)
            ctx.count("blocks_compared")
            if not numpy.array_equal(got, want):
                bad = numpy.argwhere(got != want)[:3].tolist()
                ctx.violation("block-differs:%s:count:narrow-storage" % kind,
                              "%s of a %s array with %d categories x %d positions: block %d differs from the count of column %d alone "
                              "at cells %r (block total %g, rows %d)" % (kind, numpy.dtype(dt).name, ncat, extent, j, j, bad, got.sum(), n), case)
                return


def judge(ctx, case):
    import catii

    if case["n"] % 3 == 0 and case["agg"] == "count":
        narrow_storage(ctx, case, case["n"] + len(case["dense"]) * 31 + sum(case["commons"]))
    dense = [numpy.asarray(d) for d in case["dense"]]
    dims = gen.cube_dims(case)
    shape = tuple(case["shape"])
    agg = case["agg"]
    extras = [d.shape[1:] for d in dense]
    sshape = oracles.scaffold_shape(dense)
    positions = oracles.scaffold_positions(dense)
    for d in dense:
        ctx.count("class:axes=%d" % d.ndim)
    nmulti = sum(1 for d in dense if d.ndim > 1)
    ctx.count("class:multi_dims>=2" if nmulti >= 2 else "class:multi_dims=1")
    ex = [d.shape[1:] for d in dense if d.ndim > 1]
    if len(set(ex)) < len(ex):
        ctx.count("class:dims_with_equal_extra_shape")
    ctx.count("agg:" + agg)
    rma = aggr.nat_for(case)
    distinct_ext = len(set(sshape)) == len(sshape)
    nt = len(positions) >= 2 and distinct_ext
    kinds = ["xcube"] + (["ccube"] if agg in aggr.SHARED else [])
    mag = oracles.magnitude(gen.fact_parts(case["fact"]) if case["fact"]["values"].dtype.kind != "M" else None,
                            None, case["n"])
    tol = 1e-9 * max(1.0, mag)
    for kind in kinds:
        ctx.count("cube:" + kind)
        if kind == "ccube":
            cube = catii.ccube(dims, interacting_shape=shape)
        else:
            lrng = numpy.random.default_rng(case["n"] * 7919 + len(case["aggs"] if "aggs" in case else agg))
            variants_ = [gen.layout_variant(lrng, a) for a in dense]
            for _, lab in variants_:
                ctx.count("class:xcube_layout=" + lab)
            cube = catii.xcube([v for v, _ in variants_], interacting_shape=shape)
        # entry point and knobs are part of the configuration: every fourth stacked cube goes through calculate([...])
        # with an aggregate object built without its timing bookkeeping (index cube), every seventh has its debug
        # switch on (output discarded)
        kn = case["n"] + len(dense) + sum(case["commons"])
        via = "calculate_untraced" if kn % 4 == 1 else "shortcut"
        if via != "shortcut" and kind == "ccube" and agg in aggr.SHARED:
            ctx.count("class:via_calculate_with_untraced_function_objects")
        if kn % 7 == 3 and case["n"] <= 12 and int(numpy.prod(sshape or (1,))) <= 12 and int(numpy.prod(shape or (1,))) <= 64:
            cube.debug = True
            ctx.count("class:debug_switch_on")
            import contextlib, io

            with contextlib.redirect_stdout(io.StringIO()):
                res = numpy.asarray(aggr.call_any(cube, agg, case, rma, via=via))
        else:
            res = numpy.asarray(aggr.call_any(cube, agg, case, rma, via=via))
        ctx.evaluation({"d": dense, "c": case["commons"], "a": agg, "k": kind, "f": case["fact"], "w": case["weights"],
                        "i": case["ignore_missing"], "p": case.get("p")}, nt)
        feat = "%s:%s:axes=%s" % (kind, agg, ",".join(str(d.ndim) for d in dense))
        exp_shape = sshape + shape + tail_shape(case, agg)
        if res.shape != exp_shape:
            ctx.violation("shape:" + feat, "result shape %r, expected extra extents + category extents (+ fact columns) = %r"
                          % (res.shape, exp_shape), case)
            return
        for pos in positions:
            spos = tuple(i for p in pos for i in p)
            block = res[spos]
            variants = []
            cols = oracles.columns_at(dense, pos)
            if kind == "ccube":
                variants.append(("harness-slices", catii.ccube([gen.dense_to_index(c, cm) for c, cm in zip(cols, case["commons"])],
                                                              interacting_shape=shape)))
                variants.append(("library-sliced", catii.ccube([d.sliced(*p) if p else d for d, p in zip(dims, pos)],
                                                              interacting_shape=shape)))
            else:
                variants.append(("harness-slices", catii.xcube([c.copy() for c in cols], interacting_shape=shape)))
            for vname, sub in variants:
                want = numpy.asarray(aggr.call_any(sub, agg, case, rma))
                ctx.count("blocks_compared")
                if vname == "library-sliced":
                    ctx.count("sliced_variant_compared")
                if want.shape != block.shape:
                    ctx.violation("block-shape:" + feat, "block %r has shape %r, sub-cube %r" % (spos, block.shape, want.shape), case)
                    return
                if block.dtype.kind == "M":
                    same = numpy.array_equal(block.astype("int64"), want.astype("int64"))
                else:
                    mb, mw = numpy.isnan(block.astype(float)), numpy.isnan(want.astype(float))
                    same = numpy.array_equal(mb, mw) and bool(numpy.all(numpy.abs(block.astype(float)[~mb] - want.astype(float)[~mb]) <= tol))
                if not same:
                    ctx.violation("block-differs:%s:%s" % (vname, feat),
                                  "block at extra-axis positions %r differs from the cube over the 1-D slices (%s): block %r sub-cube %r"
                                  % (spos, vname, block.ravel()[:6].tolist(), want.ravel()[:6].tolist()), case)
                    return
    # index dimensions are live objects: empty one entry of a multi-axis dimension in place (entry-wise
    # difference) and compute the cube again over the same index objects
    if agg in aggr.SHARED and case["n"] and any(d.ndim > 1 and len(x) for d, x in zip(dense, dims)):
        r2 = numpy.random.default_rng(case["n"] + 31 * len(dense))
        cand = [i for i, (d, x) in enumerate(zip(dense, dims)) if d.ndim > 1 and len(x)]
        di = cand[int(r2.integers(0, len(cand)))]
        keys = list(dict.keys(dims[di]))
        key = keys[int(r2.integers(0, len(keys)))]
        rows = dict.__getitem__(dims[di], key).copy()
        dims[di].difference_update({key: rows})
        d2 = dense[di].copy()
        d2[(rows.astype(numpy.intp),) + tuple(key[1:])] = case["commons"][di]
        dense2 = list(dense)
        dense2[di] = d2
        ctx.count("class:entry_removed_in_place_then_recomputed")
        res = numpy.asarray(aggr.call_any(catii.ccube(dims, interacting_shape=shape), agg, case, rma))
        for pos in positions:
            spos = tuple(i for p in pos for i in p)
            cols = oracles.columns_at(dense2, pos)
            sub = catii.ccube([gen.dense_to_index(c, cm) for c, cm in zip(cols, case["commons"])], interacting_shape=shape)
            want = numpy.asarray(aggr.call_any(sub, agg, case, rma))
            block = res[spos]
            mb, mw = numpy.isnan(block.astype(float)), numpy.isnan(want.astype(float))
            if not (numpy.array_equal(mb, mw) and bool(numpy.all(numpy.abs(block.astype(float)[~mb] - want.astype(float)[~mb]) <= tol))):
                ctx.violation("block-differs-after-in-place-edit:ccube:%s" % agg,
                              "after difference_update emptied entry %r of dimension %d, the block at %r does not equal the cube over the 1-D slices of the edited data" % (key, di, spos), case)
                return
    if ctx.evals % 97 == 1:
        ctx.sample({"dense_shapes": [list(d.shape) for d in dense], "commons": case["commons"], "agg": agg,
                    "result_shape": list(exp_shape)})
