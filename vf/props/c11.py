"""C11 - INDX files are byte-for-byte the documented layout.

Oracle: an independent codec (vf/indxref.py) written from the format
description only.  (1) the bytes written equal the independent encoding of the
data (entry order as found in the file, narrowest index word, 4-byte row-id
word); (2) the independent decoder recovers the saved data; (3) the library's
loader recovers the data from the independent encoder's bytes for every index
word size >= the narrowest and every row-id word size that can hold the data;
(4) the recorded payload size equals the real payload length, including totals
of 2^30 and more row ids (duck-typed row-id arrays, no data materialised)."""
import io
import os
import tempfile

import numpy

from .. import gen, indx, indxref

U32 = numpy.uint32

META = {
    "level": "exploration",
    "rule": ("data as in C10; per case: bytes vs independent encoder, independent decoder vs data, library loader on "
             "independently encoded bytes under every admissible (index word, row-id word) pair; plus narrow row-id words "
             "with totals crossing 255 / 65535, plus size-field cases with 2^29..2^32-1 row ids per entry (totals "
             "2^30-1, 2^30, 2^31, 5*2^30, 2^32-1) on sparse files. Non-trivial: >=2 entries, >=1 non-empty row-id array, "
             "arity >=2 or a word size >1 (size-field cases: total >= 2^29); distinct by content hash"),
    "require": {t: ["bytes_compared", "decoded_independently", "foreign_files_loaded", "foreign:rw=1", "foreign:rw=2",
                    "foreign:rw=8", "foreign:iw_wider", "narrow_total_over_255", "narrow_total_over_65535",
                    "sizefield:total>=2^30", "sizefield:total>=2^32", "class:numpy_scalar_coordinates",
                    "class:array_of_2^22_row_ids"] for t in ("quick", "thorough")},
    "assumptions": ["entry order is the one thing the format leaves free: the order found in the file is accepted",
                    "with no entries the dimension byte is 0 (the saver cannot know the arity)"],
}
META["rule"] += "; round 7: the same row ids in non-native byte order ('>u4' arrays): refused, or written as the documented little-endian bytes"
for _t in META["require"]:
    META["require"][_t] = list(META["require"][_t]) + ['class:byte_swapped_row_id_arrays']


def shards(tier):
    if tier == "quick":
        return [{"label": "files%d" % i, "kind": "files", "n": 220} for i in range(7)] + \
               [{"label": "narrow", "kind": "narrow", "n": 12}, {"label": "sizefield", "kind": "sizefield"}]
    return [{"label": "files%d" % i, "kind": "files", "n": 9000} for i in range(14)] + \
           [{"label": "narrow", "kind": "narrow", "n": 150}, {"label": "sizefield", "kind": "sizefield"}]


def cases(ctx):
    rng = ctx.rng
    kind = ctx.shard["kind"]
    if kind == "files":
        for i in range(ctx.shard["n"]):
            c = indx.run_case(rng) if i % 29 == 3 else (indx.tiled_case(rng) if i % 11 == 6 else indx.indx_case(rng))
            c["kind"] = "files"
            if "run_length" not in c and "tiled" not in c:
                c["numpy_scalar_keys"] = bool(rng.random() < 0.12)
            yield c
        if ctx.shard_index == 0:
            c = indx.big_array_case(rng)
            c["kind"] = "files"
            yield c
    elif kind == "narrow":
        for i in range(ctx.shard["n"]):
            # many short arrays of small ids: 1-byte (2-byte) words can hold every length and id,
            # while the running total crosses 255 (65535)
            if i % 2 == 0:
                n, top, ln = int(rng.integers(60, 120)), 255, 6
            else:
                n, top, ln = int(rng.integers(700, 900)), 65535, 100
            entries = [((j, j % 5), indx.rowids(rng, int(rng.integers(max(1, ln - 3), ln + 1)), top=top, extremes=False)) for j in range(n)]
            yield {"kind": "narrow", "arity": 2, "entries": entries, "common": int(rng.integers(0, 9)), "rw": 1 if top == 255 else 2}
    else:
        G = 2 ** 30
        plans = [[G - 1], [G], [2 ** 29, 2 ** 29], [2 ** 31], [G, G, G, G, G], [2 ** 32 - 1], [3, 2 ** 29 + 5, 0, 17],
                 [2 ** 32 - 1, 2 ** 32 - 1]]
        for p in plans:
            yield {"kind": "sizefield", "lengths": p, "common": int(gen.pick(rng, [0, 300, 2 ** 40])),
                   "arity": int(rng.integers(1, 4))}


class DuckRowids:
    """Stands in for a uint32 row-id array of the given length: the real save()
    runs its real arithmetic and its own tell() check; tofile() seeks forward."""

    dtype = numpy.dtype(U32)

    def __init__(self, n):
        self.n = n

    def __len__(self):
        return self.n

    def tofile(self, f):
        f.flush()
        f.seek(4 * self.n, os.SEEK_CUR)


def judge(ctx, case):
    if case["kind"] == "sizefield":
        return judge_sizefield(ctx, case)
    ent = indx.plain_keys(indx.entries_dict(case))
    if case.get("numpy_scalar_keys"):
        ctx.count("class:numpy_scalar_coordinates")
    if case.get("big_array"):
        ctx.count("class:array_of_2^22_row_ids")
    common = int(case["common"])
    n = len(ent)
    maxc = max([c for k in ent for c in k] + [common])
    feat = "arity=%d,w=%d,n=%s" % (case["arity"], indx.word_class(maxc), "0" if n == 0 else ("1" if n == 1 else "many"))
    nt = n >= 2 and any(len(v) for v in ent.values()) and (case["arity"] >= 2 or indx.word_class(maxc) > 1)
    ctx.evaluation({"e": [(k, v) for k, v in ent.items()], "c": common, "k": case["kind"]}, nt)
    if ctx.evals % 203 == 1:
        ctx.sample({"entries": [(list(k), v) for k, v in list(ent.items())[:3]], "n_entries": n, "common": common})
    want = {k: v.tolist() for k, v in ent.items()}

    if case["kind"] == "files" or True:
        data = indx.save_bytes(case)
        # (2) independent decoder
        try:
            items, dcommon, info = indxref.decode(data)
        except indxref.FormatError as e:
            ctx.violation("undecodable:" + feat, "independent decoder rejects the written file: %s" % e, case)
            return
        ctx.count("decoded_independently")
        got = {k: v for k, v in items}
        exp_dims = case["arity"] if n else 0
        if len(items) != len(got) or got != want or dcommon != common or info["dims"] != exp_dims:
            ctx.violation("decoded-differs:" + feat,
                          "independent decoder reads common=%r dims=%r %d entries; saved common=%r arity=%r %d entries"
                          % (dcommon, info["dims"], len(items), common, case["arity"], n), case)
            return
        if info["size"] != len(data) - 16:
            ctx.violation("size-field:" + feat, "size field %d, payload %d" % (info["size"], len(data) - 16), case)
            return
        # (1) bytes
        ref = indxref.encode(items, common, iw=None, rw=4, dims=exp_dims)
        ctx.count("bytes_compared")
        if ref != data:
            pos = next((i for i, (x, y) in enumerate(zip(ref, data)) if x != y), min(len(ref), len(data)))
            what = "index-word" if info["iw"] != indxref.narrowest_word(maxc) else ("rowid-word" if info["rw"] != 4 else "layout")
            ctx.violation("bytes-differ:%s:%s" % (what, feat),
                          "file bytes differ from the documented layout at offset %d (file iw=%d rw=%d, narrowest iw=%d); "
                          "file %s.. reference %s.." % (pos, info["iw"], info["rw"], indxref.narrowest_word(maxc),
                                                       data[max(0, pos - 4):pos + 8].hex(), ref[max(0, pos - 4):pos + 8].hex()), case)
            return
        # (1b) the same values held in memory in the other byte order ('>u4' arrays, as they come out of foreign
        # buffers): the writer may refuse them, but whatever it writes without complaint is the documented layout
        nonempty = [k for k, v in ent.items() if len(v)]
        if nonempty and ctx.evals % 5 == 0 and not case.get("big_array"):
            ent2 = dict(indx.entries_dict(case))
            ks = list(ent2)
            for k in set(ks[:: max(1, len(ks) // 3)] + [ks[[tuple(int(c) for c in q) for q in ks].index(nonempty[0])]]):
                ent2[k] = ent2[k].astype(ent2[k].dtype.newbyteorder())
            ctx.count("class:byte_swapped_row_id_arrays")
            try:
                data2 = indx.save_bytes(case, entries=ent2)
            except (RuntimeError, TypeError, ValueError):
                data2 = None
                ctx.count("byte_swapped:refused")
            if data2 is not None:
                ctx.count("byte_swapped:written")
                if data2 != ref:
                    pos = next((i for i, (x, y) in enumerate(zip(ref, data2)) if x != y), min(len(ref), len(data2)))
                    ctx.violation("bytes-differ:byte-swapped-arrays:" + feat,
                                  "row-id arrays given in non-native byte order were accepted, and the file differs from the "
                                  "documented little-endian layout at offset %d: file %s.. reference %s.."
                                  % (pos, data2[max(0, pos - 4):pos + 8].hex(), ref[max(0, pos - 4):pos + 8].hex()), case)
                    return
    # (3) the library reads independently encoded files
    items = [(k, v.tolist()) for k, v in ent.items()]
    maxlen = max([len(v) for _, v in items] + [0])
    maxid = max([x for _, v in items for x in v[-1:]] + [0])
    total = sum(len(v) for _, v in items)
    iw0 = indxref.narrowest_word(maxc)
    iws = [w for w in (1, 2, 4, 8) if w >= iw0]
    rws = [w for w in (1, 2, 4, 8) if max(maxlen, maxid) < 1 << (8 * w)]
    if len(items) > 400 or case.get("big_array"):
        iws, rws = iws[:2], rws[:2]
    if case.get("big_array"):
        iws, rws = iws[:1], [4]
    if case["kind"] == "narrow":
        rws = [case["rw"]]
        ctx.count("narrow_total_over_255" if case["rw"] == 1 and total > 255 else
                  ("narrow_total_over_65535" if case["rw"] == 2 and total > 65535 else "narrow_other"))
    for iw in iws:
        for rw in rws:
            blob = indxref.encode(items, common, iw=iw, rw=rw, dims=(case["arity"] if n else 0))
            out, lcommon, dt, info2 = indx.load_bytes(blob)
            ctx.count("foreign_files_loaded")
            if indx.LATER_CHANGE[0]:
                ctx.violation("foreign-earlier-result-changed-by-a-later-load:%s,iw=%d,rw=%d" % (feat, iw, rw), indx.LATER_CHANGE[0], case)
                return
            ctx.count("foreign:rw=%d" % rw)
            if iw > iw0:
                ctx.count("foreign:iw_wider")
            f2 = "%s,iw=%d,rw=%d" % (feat, iw, rw)
            if type(lcommon) is not int or lcommon != common:
                ctx.violation("foreign-common:" + f2, "loader read common %r from an independently written file holding %r" % (lcommon, common), case)
                return
            if {k: v.tolist() for k, v in out.items()} != want:
                bad = [k for k in want if k not in out or out[k].tolist() != want[k]][:2]
                ctx.violation("foreign-data:" + f2,
                              "loader misreads an independently written file (iw=%d rw=%d, %d row ids in total) at keys %r"
                              % (iw, rw, total, bad), case)
                return
            if any(v.dtype != U32 for v in out.values()) or any(not all(type(c) is int for c in k) for k in out):
                ctx.violation("foreign-types:" + f2, "loader returned non-uint32 arrays or non-int coordinates", case)
                return


def judge_sizefield(ctx, case):
    from catii.indxio import IndxIO

    lengths = [int(x) for x in case["lengths"]]
    arity = int(case["arity"])
    common = int(case["common"])
    total = sum(lengths)
    ctx.count("sizefield:total>=2^30" if total >= 2 ** 30 else "sizefield:total<2^30")
    if total >= 2 ** 32:
        ctx.count("sizefield:total>=2^32")
    ctx.evaluation({"sizefield": lengths, "c": common, "a": arity}, total >= 2 ** 29)
    ctx.sample({"sizefield_lengths": lengths, "total_rowids": total, "common": common})
    ent = {tuple([i] + [7] * (arity - 1)): DuckRowids(n) for i, n in enumerate(lengths)}
    iw = indxref.narrowest_word(max(common, len(lengths) - 1, 7 if arity > 1 else 0))
    expected = indxref.payload_size(len(lengths), arity, iw, 4, total)
    feat = "total=2^%d" % (total.bit_length() - 1)
    fd, p = tempfile.mkstemp(prefix="vf-indx-", dir=indx.TMPDIR)
    os.close(fd)
    try:
        with open(p, "wb") as f:
            try:
                IndxIO.save(f, ent, common, numpy.dtype(U32))
            except RuntimeError as e:
                ctx.violation("sizefield-raises:" + feat, "save of %d row ids in total raised: %s" % (total, e), case)
                return
            end = f.tell()
        with open(p, "rb") as f:
            head = f.read(16)
    finally:
        os.unlink(p)
    size = int.from_bytes(head[8:16], "little")
    if size != expected or end != 16 + expected:
        ctx.violation("sizefield-wrong:" + feat,
                      "recorded payload size %d, real payload %d (file position after save %d) for %d row ids"
                      % (size, expected, end - 16, total), case)
