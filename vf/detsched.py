"""Deterministic seeded thread scheduler + substitute worker pool.

A DetPool runs one real thread per worker but lets exactly one of them hold a
baton.  sys.monitoring INSTRUCTION events, enabled only on the code objects of
the catii modules (incl. nested closures), are the yield points; a seeded
strategy decides every hand-over, so a schedule is a pure function of
(seed, strategy, workload) and is replayable.

Strategies
    uniform(p)   at every event switch to a uniformly chosen runnable worker with probability p
    pct(d)       PCT: random distinct priorities, the highest-priority runnable worker runs;
                 at d-1 seeded change points the running worker drops to the lowest priority
"""
import hashlib
import random
import sys
import threading
import time

from . import monitors

TOOL = 3


class Watchdog(Exception):
    pass


class DetSched:
    def __init__(self, seed, strategy=("uniform", 0.05), codes=(), expected_events=20000, wall_limit=120.0):
        self.rng = random.Random(seed)
        self.strategy = strategy
        self.codes = list(codes)
        self.cv = threading.Condition()
        self.current = None
        self.runnable = []
        self.workers = {}          # thread ident -> worker index
        self.nevents = 0
        self.nswitch = 0
        self.trace = hashlib.blake2b(digest_size=8)
        self.per_worker_events = {}
        self.tasks_per_worker = {}
        self.wall_limit = wall_limit
        self.t0 = None
        self.dead = False
        self.priorities = {}
        self.change_points = set()
        if strategy[0] == "pct":
            d = int(strategy[1])
            self.change_points = {self.rng.randrange(1, max(2, expected_events)) for _ in range(max(0, d - 1))}

    # -- instrumentation ---------------------------------------------------- #
    def install(self):
        mon = sys.monitoring
        mon.use_tool_id(TOOL, "vf-detsched")
        mon.register_callback(TOOL, mon.events.INSTRUCTION, self._on_event)
        for co in self.codes:
            mon.set_local_events(TOOL, co, mon.events.INSTRUCTION)
        self.t0 = time.time()

    def uninstall(self):
        mon = sys.monitoring
        for co in self.codes:
            mon.set_local_events(TOOL, co, 0)
        mon.register_callback(TOOL, mon.events.INSTRUCTION, None)
        mon.free_tool_id(TOOL)

    def _on_event(self, code, offset):
        idx = self.workers.get(threading.get_ident())
        if idx is None or self.dead:
            return
        self.nevents += 1
        self.per_worker_events[idx] = self.per_worker_events.get(idx, 0) + 1
        if self.strategy[0] == "uniform":
            if self.rng.random() < self.strategy[1]:
                self.yield_(idx)
        else:
            if self.nevents in self.change_points:
                self.priorities[idx] = min(self.priorities.values()) - 1
                self.yield_(idx)

    # -- baton -------------------------------------------------------------- #
    def _pick(self, me):
        if self.strategy[0] == "uniform":
            return self.rng.choice(self.runnable)
        return max(self.runnable, key=lambda i: self.priorities[i])

    def _wait(self, idx):
        while self.current != idx:
            if self.dead:
                raise Watchdog()
            self.cv.wait(timeout=1.0)
            if self.t0 and time.time() - self.t0 > self.wall_limit:
                self.dead = True
                self.cv.notify_all()
                raise Watchdog()

    def yield_(self, idx, done=False):
        with self.cv:
            if done:
                self.runnable.remove(idx)
            if not self.runnable:
                self.current = None
                self.cv.notify_all()
                return
            nxt = self._pick(idx)
            if nxt != idx:
                self.nswitch += 1
                self.trace.update(b"%d@%d;" % (nxt, self.nevents))
                self.current = nxt
                self.cv.notify_all()
                if not done:
                    self._wait(idx)

    def start(self, n):
        self.runnable = list(range(n))
        prios = list(range(n))
        self.rng.shuffle(prios)
        self.priorities = dict(zip(range(n), prios))

    def go(self):
        with self.cv:
            self.current = self._pick(None)
            self.trace.update(b"s%d;" % self.current)
            self.cv.notify_all()

    def wait_turn(self, idx):
        with self.cv:
            self._wait(idx)

    def summary(self):
        return {"events": self.nevents, "switches": self.nswitch, "schedule": self.trace.hexdigest(),
                "workers_with_tasks": sum(1 for v in self.tasks_per_worker.values() if v),
                "workers_with_events": len(self.per_worker_events)}


class DetPool:
    """Stands in for multiprocessing.pool.ThreadPool: map() and close()."""

    factory = None     # callable returning a fresh DetSched
    runs = []          # summaries of the map() calls made

    def __init__(self, processes=None):
        self.n = processes or 1

    def close(self):
        pass

    def terminate(self):
        pass

    def join(self):
        pass

    def __enter__(self):
        return self

    def __exit__(self, *a):
        self.close()

    def map(self, fn, iterable, chunksize=None):
        tasks = list(iterable)
        sched = DetPool.factory()
        nw = max(1, min(self.n, len(tasks))) if tasks else 1
        queue = list(enumerate(tasks))
        results = [None] * len(tasks)
        errors = []

        def worker(idx):
            sched.workers[threading.get_ident()] = idx
            try:
                sched.wait_turn(idx)
                while queue:
                    i, t = queue.pop(0)
                    sched.tasks_per_worker[idx] = sched.tasks_per_worker.get(idx, 0) + 1
                    try:
                        results[i] = fn(t)
                    except Watchdog:
                        raise
                    except BaseException as e:  # noqa: B902 - re-raised by map below, like ThreadPool.map
                        errors.append((i, e))
            except Watchdog:
                pass
            finally:
                sched.workers.pop(threading.get_ident(), None)
                try:
                    sched.yield_(idx, done=True)
                except Watchdog:
                    pass

        threads = [threading.Thread(target=worker, args=(i,), daemon=True) for i in range(nw)]
        sched.start(nw)
        sched.install()
        try:
            for t in threads:
                t.start()
            sched.go()
            for t in threads:
                t.join(sched.wall_limit + 30)
        finally:
            sched.uninstall()
        s = sched.summary()
        s["tasks"] = len(tasks)
        s["workers"] = nw
        s["watchdog"] = sched.dead or any(t.is_alive() for t in threads)
        DetPool.runs.append(s)
        if s["watchdog"]:
            raise Watchdog("controlled schedule did not finish")
        self._errors = errors
        if errors and not getattr(self, "_lazy", False):
            raise errors[0][1]
        return results

    def starmap(self, fn, iterable, chunksize=None):
        return self.map(lambda args: fn(*args), iterable)

    def _lazy_results(self, fn, iterable):
        """imap / imap_unordered: everything runs under the scheduler now, errors surface only when the
        returned iterator is consumed (as with the real pool's result iterators)."""
        self._lazy = True
        try:
            results = self.map(fn, iterable)
        finally:
            self._lazy = False
        errors = dict(self._errors)

        def it():
            for i, r in enumerate(results):
                if i in errors:
                    raise errors[i]
                yield r
        return it()

    def imap(self, fn, iterable, chunksize=1):
        return self._lazy_results(fn, iterable)

    def imap_unordered(self, fn, iterable, chunksize=1):
        return self._lazy_results(fn, iterable)

    def map_async(self, fn, iterable, chunksize=None, callback=None, error_callback=None):
        pool = self

        class Result:
            def __init__(self):
                pool._lazy = True
                try:
                    self.value = pool.map(fn, iterable)
                finally:
                    pool._lazy = False
                self.errors = list(pool._errors)

            def get(self, timeout=None):
                if self.errors:
                    raise self.errors[0][1]
                return self.value

            def wait(self, timeout=None):
                pass

            def ready(self):
                return True

            def successful(self):
                return not self.errors
        return Result()

    def apply_async(self, fn, args=(), kwds=None, callback=None, error_callback=None):
        return self.map_async(lambda _: fn(*args, **(kwds or {})), [None])

    def apply(self, fn, args=(), kwds=None):
        return self.map(lambda _: fn(*args, **(kwds or {})), [None])[0]


def catii_codes():
    """Code objects of the cube / aggregate modules (every loaded pure-Python module of the package
    except the index and file-format modules, whose bytecodes are not where tasks interleave)."""
    import catii
    import catii.ccubes  # noqa: F401
    import catii.xcubes  # noqa: F401

    codes = []
    for m in monitors.catii_modules():
        f = getattr(m, "__file__", "") or ""
        if not f.endswith(".py") or m.__name__ in ("catii", "catii.iindexes", "catii.indxio"):
            continue
        codes.extend(monitors.code_objects_of(m))
    return codes


class pooled:
    """Context manager: route both cube types' pools to DetPool (or leave the real
    ThreadPool in place) for the duration of a calculate call."""

    def __init__(self, cube, factory):
        self.cube = cube
        self.factory = factory
        self.saved = []

    def __enter__(self):
        import multiprocessing.pool as mp

        DetPool.factory = self.factory
        DetPool.runs = []
        if self.factory is None:
            return self
        real = mp.ThreadPool
        self.saved.append((mp, "ThreadPool", real))
        mp.ThreadPool = DetPool
        for mod in monitors.catii_modules():
            for name, val in list(vars(mod).items()):
                if val is real:
                    self.saved.append((mod, name, val))
                    setattr(mod, name, DetPool)
        if hasattr(self.cube, "pool_class"):
            self.saved.append((self.cube, "pool_class", self.cube.__dict__.get("pool_class", None)))
            self.cube.pool_class = DetPool
        return self

    def __exit__(self, *a):
        for owner, name, val in reversed(self.saved):
            if name == "pool_class" and val is None:
                try:
                    delattr(owner, name)
                except AttributeError:
                    pass
            else:
                setattr(owner, name, val)
        self.saved = []
