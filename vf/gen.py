"""Seeded, stratified generators shared by the property modules.

Everything here builds *inputs*; nothing calls library operations except the
iindex constructor (dense_to_index), so generated indexes do not depend on the
code paths under test (from_array, shift_common, ...)."""
import numpy

I64 = numpy.int64
U32 = numpy.uint32


def pick(rng, seq):
    return seq[int(rng.integers(0, len(seq)))]


def wpick(rng, pairs):
    """pairs: [(item, weight), ...]"""
    items = [p[0] for p in pairs]
    w = numpy.array([p[1] for p in pairs], dtype=float)
    return items[int(rng.choice(len(items), p=w / w.sum()))]


# --------------------------------------------------------------------------- #
# indexes from dense arrays, using the constructor only
def dense_to_index(a, common):
    from catii import iindex

    a = numpy.asarray(a)
    common = int(common)
    entries = {}
    if a.size:
        flat_vals = numpy.unique(a)
    else:
        flat_vals = []
    if a.ndim == 1:
        for v in flat_vals:
            v = int(v)
            if v != common:
                entries[(v,)] = numpy.nonzero(a == v)[0].astype(U32)
    else:
        rest = a.shape[1:]
        for pos in numpy.ndindex(*rest):
            col = a[(slice(None),) + pos]
            for v in numpy.unique(col) if col.size else []:
                v = int(v)
                if v != common:
                    entries[(v,) + tuple(int(p) for p in pos)] = numpy.nonzero(col == v)[0].astype(U32)
    # The order in which the entries were inserted is free (histories, updates and files produce any order):
    # one third of the indexes list their entries in ascending order, one third descending, one third rotated.
    keys = list(entries)
    mode = (len(keys) + int(a.shape[0])) % 3
    if mode == 1:
        keys.reverse()
    elif mode == 2:
        keys = keys[1:] + keys[:1]
    entries = {k: entries[k] for k in keys}
    return iindex(entries, common, tuple(int(s) for s in a.shape))


def stride_entries(idx, rng, prob=0.5):
    """Replace some row-id arrays by non-contiguous views holding the same values (an index accepts
    any uint32 array)."""
    for k, v in list(dict.items(idx)):
        if len(v) and rng.random() < prob:
            buf = numpy.full(2 * len(v) + 3, 0xCDCDCDCD, dtype=U32)
            buf[1:1 + 2 * len(v):2] = v
            dict.__setitem__(idx, k, buf[1:1 + 2 * len(v):2])
    return idx


def layout_variant(rng, a):
    """The same array in another memory layout (Fortran order, or a strided view)."""
    a = numpy.asarray(a)
    which = wpick(rng, [("C", 3), ("F", 2), ("strided", 1)])
    if which == "F" and a.ndim >= 2:
        return numpy.asfortranarray(a), "F"
    if which == "strided" and a.ndim >= 1 and a.shape[0]:
        big = numpy.zeros((2 * a.shape[0],) + a.shape[1:], dtype=a.dtype)
        big[::2] = a
        return big[::2], "strided"
    return a.copy(), "C"


def index_to_dense(idx, dtype=None):
    """Harness-side densification (does not use iindex.to_array)."""
    vals = [c[0] for c in idx] + [idx.common]
    if dtype is None:
        dtype = I64 if all(-2 ** 63 <= v < 2 ** 63 for v in vals) else object
    out = numpy.full(idx.shape, idx.common, dtype=dtype)
    for coords, rowids in dict.items(idx):
        out[(numpy.asarray(rowids, dtype=numpy.intp),) + tuple(coords[1:])] = coords[0]
    return out


# --------------------------------------------------------------------------- #
# value alphabets (python ints)
ALPHABET_CLASSES = ["small", "gapped", "b8", "b16", "b31", "b32", "b63", "neg", "negbig", "mixed", "sbound"]


def alphabet(rng, cls, kmin=1, kmax=8):
    k = int(rng.integers(kmin, kmax + 1))
    if cls == "small":
        vals = list(range(k))
    elif cls == "gapped":
        vals = sorted(set(int(x) for x in rng.integers(0, 40, size=k)))
    elif cls == "b8":
        vals = [254, 255, 256, 257, 0, 1, 127, 128][:max(k, 3)]
    elif cls == "b16":
        vals = [65534, 65535, 65536, 65537, 0, 255, 256, 3][:max(k, 3)]
    elif cls == "b31":
        vals = [2 ** 31 - 1, 2 ** 31, 2 ** 31 + 1, 0, 5, 65536][:max(k, 3)]
    elif cls == "b32":
        vals = [2 ** 32 - 1, 2 ** 32, 2 ** 32 + 1, 2 ** 31, 1, 7][:max(k, 3)]
    elif cls == "b63":
        vals = [2 ** 62, 2 ** 63 - 1, 2 ** 63 - 2, 0, 2 ** 32, 9][:max(k, 3)]
    elif cls == "neg":
        vals = [-1, 0, 1, -128, -129, 127, 128, -2][:max(k, 2)]
    elif cls == "negbig":
        vals = [-(2 ** 31) - 1, -(2 ** 31), -(2 ** 63), 2 ** 31, -1, 0, -32769, 32768][:max(k, 3)]
    elif cls == "sbound":
        # a small negative minimum with a maximum exactly on / next to a signed-width boundary (and the mirror image)
        b = pick(rng, [128, 32768, 2 ** 31])
        hi = pick(rng, [b - 1, b, b, b + 1])
        lo = pick(rng, [-1, -2, -b, -b - 1, -b + 1])
        vals = [lo, hi, 0, 1, 5][:max(k, 2)]
    elif cls == "mixed":
        pool = [0, 1, 2, 3, 255, 256, 65535, 65536, -1, -129, 2 ** 31, 2 ** 32, 2 ** 40, -(2 ** 40), 12, 99]
        vals = sorted(set(pick(rng, pool) for _ in range(max(k, 2))))
    else:
        raise ValueError(cls)
    vals = list(dict.fromkeys(vals))
    return vals


DIST_CLASSES = ["uniform", "skew", "sparse", "verysparse", "single", "ties"]


def draw_values(rng, n, vals, dist):
    """n draws (python-int valued int64/object array) from `vals`."""
    k = len(vals)
    if n == 0:
        idx = numpy.zeros(0, dtype=int)
    elif dist == "uniform":
        idx = rng.integers(0, k, size=n)
    elif dist == "skew":
        p = rng.dirichlet(numpy.full(k, 0.4))
        idx = rng.choice(k, size=n, p=p)
    elif dist in ("sparse", "verysparse"):
        frac = rng.uniform(0.005, 0.05) if dist == "sparse" else rng.uniform(0.0005, 0.005)
        idx = numpy.zeros(n, dtype=int)
        m = max(1, int(round(frac * n))) if k > 1 else 0
        if m:
            where = rng.choice(n, size=min(m, n), replace=False)
            idx[where] = rng.integers(1, k, size=len(where))
            # make sure every value occurs at least once when there is room
            if len(where) >= k - 1:
                idx[where[: k - 1]] = numpy.arange(1, k)
        common_pos = int(rng.integers(0, k))
        idx = (idx + common_pos) % k
    elif dist == "single":
        idx = numpy.full(n, int(rng.integers(0, k)), dtype=int)
    elif dist == "ties":
        idx = numpy.arange(n) % k
        rng.shuffle(idx)
    else:
        raise ValueError(dist)
    arr = numpy.array(vals, dtype=object)[idx]
    try:
        return arr.astype(I64)
    except OverflowError:
        return arr


def storage_dtypes(lo, hi):
    out = []
    for dt in (numpy.int8, numpy.uint8, numpy.int16, numpy.uint16, numpy.int32, numpy.uint32, numpy.int64,
               numpy.uint64):
        ii = numpy.iinfo(dt)
        if ii.min <= lo and hi <= ii.max:
            out.append(numpy.dtype(dt))
    return out


# --------------------------------------------------------------------------- #
# cube dimensions: dense coordinate arrays with category codes 0..extent-1
N_CLASSES = [0, 1, 2, 3, 5, 8, 17, 40, 60, 120, 300]


def cube_case(rng, ndims=None, n=None, max_axes=3, big_extent=False, allow_outside_common=True,
              explicit_shape=None, min_dims=0, max_dims=4, multi_axis_prob=0.3, distinct_extras=False,
              max_extent=5, max_extra=4, force_multi=False):
    """A cube input: {"dense":[(N,*extra) int64 arrays], "commons":[int], "shape": tuple|None,
    "extents":[int]} (extents = number of categories the data is drawn from)."""
    if ndims is None:
        ndims = int(rng.integers(min_dims, max_dims + 1))
    if n is None:
        n = pick(rng, N_CLASSES)
    dense, commons, extents = [], [], []
    used_extras = set()
    multi_done = False
    for d in range(ndims):
        if big_extent and d == 0:
            ext = pick(rng, [255, 256, 257, 65535, 65536])
        else:
            ext = int(rng.integers(1, max_extent + 1))
        extents.append(ext)
        want_multi = rng.random() < multi_axis_prob or (force_multi and not multi_done and d == ndims - 1)
        if max_axes > 1 and want_multi:
            naxes = int(rng.integers(2, max_axes + 1))
            extra = []
            for _ in range(naxes - 1):
                e = int(rng.integers(1, max_extra + 1))
                if distinct_extras:
                    tries = 0
                    while e in used_extras and tries < 20:
                        e = int(rng.integers(1, max_extra + 3))
                        tries += 1
                    used_extras.add(e)
                extra.append(e)
            multi_done = True
        else:
            extra = []
        shape = (n,) + tuple(extra)
        dist = wpick(rng, [("uniform", 4), ("skew", 3), ("sparse", 1), ("single", 1), ("ties", 1)])
        size = int(numpy.prod(shape))
        if big_extent and d == 0:
            vals = sorted(set([0, ext - 1, ext - 2 if ext > 2 else 0] + [int(x) for x in rng.integers(0, ext, size=3)]))
        else:
            # sometimes leave categories unused (extent larger than the data)
            vals = list(range(ext))
            if ext > 1 and rng.random() < 0.25:
                drop = int(rng.integers(0, ext))
                vals = [v for v in vals if v != drop]
        a = draw_values(rng, size, vals, dist).astype(I64).reshape(shape)
        dense.append(a)
        # common: most frequent / rare / absent-inside / absent-outside (= ext)
        mode = wpick(rng, [("frequent", 4), ("any", 3), ("absent_inside", 1),
                           ("outside", 1 if allow_outside_common else 0)])
        present = numpy.unique(a).tolist() if a.size else []
        if mode == "frequent" and present:
            u, c = numpy.unique(a, return_counts=True)
            common = int(u[numpy.argmax(c)])
        elif mode == "any" and present:
            common = int(pick(rng, present))
        elif mode == "absent_inside":
            absent = [v for v in range(ext) if v not in present]
            common = int(pick(rng, absent)) if absent else int(rng.integers(0, ext))
        elif mode == "outside":
            common = ext
        else:
            common = int(rng.integers(0, ext))
        commons.append(common)
    if explicit_shape is None:
        explicit_shape = rng.random() < 0.5
    shape = None
    if explicit_shape:
        shape = tuple(max(e, c + 1) + (int(rng.integers(0, 3)) if rng.random() < 0.3 else 0)
                      for e, c in zip(extents, commons))
    return {"dense": dense, "commons": commons, "shape": shape, "extents": extents}


def cube_dims(case):
    dims = [dense_to_index(a, c) for a, c in zip(case["dense"], case["commons"])]
    for pos, j in case.get("alias", []):
        dims[pos] = dims[j]          # the very same index object standing for two dimensions
    return dims


def add_alias(rng, case):
    """Make one dimension of the cube case occur twice (a variable crossed with itself): the dense array, common
    value, extent and explicit shape are repeated at a random position and cube_dims() hands out ONE object for
    both.  Only for checks that never change a dimension in place."""
    nd = len(case["dense"])
    if not 1 <= nd <= 3:
        return case
    j = int(rng.integers(0, nd))
    pos = int(rng.integers(0, nd + 1))
    subcubes = 1
    for a in list(case["dense"]) + [case["dense"][j]]:
        subcubes *= int(numpy.prod(numpy.shape(a)[1:] or (1,)))
    if subcubes > 600:
        # (cost only: thousands of sub-cubes times every aggregate and report format take minutes)
        return case
    for key in ("dense", "commons", "extents"):
        lst = list(case[key])
        lst.insert(pos, lst[j])
        case[key] = lst
    if case.get("shape") is not None:
        shp = list(case["shape"])
        shp.insert(pos, shp[j])
        case["shape"] = tuple(shp)
    src = j if j < pos else j + 1
    case["alias"] = [[pos, src]] if pos > src else [[src, pos]]
    return case


def lopsided_cube_case(rng, n=None, frequent_explicit=True):
    """Two or three 1-D dimensions over a few hundred to a few thousand rows in which one category is very
    frequent and the others sit on short RUNS of adjacent rows; the runs of different dimensions start and end
    one row apart from each other, so that a short row list and a long one (the frequent category, once it is
    stored explicitly) interleave in every way: hit after miss, miss after hit, first/last element, runs at the
    very start and the very end of the rows.  commons: a rare category when frequent_explicit (so the cube walks
    long lists against short ones), else the frequent one."""
    if n is None:
        n = int(pick(rng, [200, 700, 3000]))
    ndims = int(rng.integers(2, 4))
    dense, commons, extents = [], [], []
    starts = sorted(int(x) for x in rng.choice(max(1, n - 8), size=min(max(1, n - 8), int(rng.integers(3, 9))), replace=False))
    starts += [0, n - 4] if rng.random() < 0.5 else []
    for d in range(ndims):
        ext = int(rng.integers(3, 6))
        a = numpy.zeros(n, dtype=numpy.int64)
        for s0 in starts:
            if rng.random() < 0.25:
                continue
            s1 = s0 + int(rng.integers(-1, 2))            # one row before / same / one row after
            ln = int(rng.integers(1, 5))
            lo, hi = max(0, s1), min(n, max(0, s1) + ln)
            a[lo:hi] = int(rng.integers(1, ext))
        dense.append(a)
        commons.append(int(rng.integers(1, ext)) if frequent_explicit and rng.random() < 0.85 else 0)
        extents.append(ext)
    return {"dense": dense, "commons": commons, "shape": None, "extents": extents}


def sparse_regime_case(rng, n=None):
    """Two or three dimensions of 6-9 categories in which 94-99% of the rows hold one answer and the rest are scattered
    singly over the rows, the scattered rows of different dimensions largely coinciding (so that short row lists are
    intersected with each other): the regime in which a constructor from dense data leaves its small-data path."""
    if n is None:
        n = int(pick(rng, [150, 400, 1500, 6000]))
    ndims = int(rng.integers(2, 4))
    k = max(4, int(n * float(pick(rng, [0.02, 0.04, 0.055]))))
    hot = rng.choice(n, size=k, replace=False)
    dense, commons, extents = [], [], []
    for d in range(ndims):
        ext = int(rng.integers(6, 10))
        a = numpy.zeros((n,) if d or rng.random() < 0.7 else (n, 2), dtype=numpy.int64)
        rows = hot[rng.random(k) < 0.8]
        vals = rng.integers(1, ext, size=len(rows))
        vals[: ext - 1] = numpy.arange(1, ext)[: len(vals[: ext - 1])]      # every category occurs
        if a.ndim == 1:
            a[rows] = vals
        else:
            a[rows, rng.integers(0, 2, size=len(rows))] = vals
        dense.append(a)
        commons.append(0 if rng.random() < 0.8 else int(rng.integers(1, ext)))
        extents.append(ext)
    return {"dense": dense, "commons": commons, "shape": None, "extents": extents}


def inferred_shape(case):
    """Shape the index cube is expected to infer: max(values present u {common}) + 1."""
    out = []
    for a, c in zip(case["dense"], case["commons"]):
        m = int(a.max()) if a.size else c
        out.append(max(m, c) + 1)
    return tuple(out)


# --------------------------------------------------------------------------- #
# fact variables and weights
GARBAGE_F = [float("nan"), float("inf"), -float("inf"), 1e300, -7.25]
GARBAGE_I = [2 ** 62, -(2 ** 62), 123456789, -1]


def fact_case(rng, n, k=None, kind=None, density=None, form=None, dyadic=None):
    """{"values": array (n,) or (n,k), "validity": bool array or None}; validity None
    means the NaN-marked single-array form."""
    if kind is None:
        kind = wpick(rng, [("f8", 3), ("i8", 1)])
    if density is None:
        density = wpick(rng, [(0.0, 2), (0.2, 4), (0.6, 2), (1.0, 1)])
    if dyadic is None:
        dyadic = rng.random() < 0.6
    shape = (n,) if k is None else (n, k)
    if kind == "i8":
        values = rng.integers(-20, 50, size=shape).astype(I64)
        form = "tuple" if form is None or density > 0 else form
    else:
        if dyadic:
            values = rng.integers(-64, 64, size=shape) / 8.0
        else:
            values = numpy.round(rng.normal(0, 3, size=shape), 1) if rng.random() < 0.5 else rng.normal(0, 3, size=shape)
        values = values.astype(float)
        if form is None:
            form = wpick(rng, [("nan", 1), ("tuple", 1)])
    missing = rng.random(size=shape) < density
    if density == 1.0:
        missing[:] = True
    if k is not None and k >= 2 and n:
        # column-level patterns: one column entirely missing, another entirely valid
        r = rng.random()
        if r < 0.12:
            missing[:, int(rng.integers(0, k))] = True
        if 0.06 < r < 0.2:
            missing[:, int(rng.integers(0, k))] = False
    if form == "nan":
        values = values.copy()
        values[missing] = numpy.nan
        return {"values": values, "validity": None, "dyadic": bool(dyadic)}
    values = values.copy()
    if missing.any():
        if kind == "i8":
            g = numpy.array([pick(rng, GARBAGE_I) for _ in range(int(missing.sum()))], dtype=I64)
        else:
            g = numpy.array([pick(rng, GARBAGE_F) for _ in range(int(missing.sum()))], dtype=float)
        values[missing] = g
    return {"values": values, "validity": ~missing, "dyadic": bool(dyadic)}


def weight_case(rng, n, cls=None, dyadic=None):
    """{"kind": none|scalar|array|tuple, "values":..., "validity":...}"""
    if cls is None:
        cls = wpick(rng, [("none", 3), ("scalar", 2), ("array", 3), ("tuple", 3)])
    if dyadic is None:
        dyadic = rng.random() < 0.6
    if cls == "none":
        return {"kind": "none"}
    if cls == "scalar":
        # (a scalar weight may itself be missing: every row is then missing)
        return {"kind": "scalar", "values": float(pick(rng, [0.0, 0.5, 2.0, 1.0, 0.5, 2.0, 1.0, float("nan")]))}
    pool = [0.0, 0.5, 1.0, 2.0, 0.25, 4.0] if dyadic else [0.0, 0.1, 0.3, 0.7, 1.1, 2.3, 1.0]
    w = numpy.array([pick(rng, pool) for _ in range(n)], dtype=float)
    if not dyadic and n:
        jitter = rng.random(n) < 0.5
        w[jitter] = numpy.round(rng.uniform(0.05, 3.0, size=int(jitter.sum())), 3)
    unit = bool(rng.random() < 0.12)
    if unit:
        # unit weights: every weight exactly 1 (also under a False validity) - unweighted data with a "weight missing" flag
        w[:] = 1.0
    density = wpick(rng, [(0.0, 3), (0.2, 3), (0.6, 1), (1.0, 1)])
    missing = rng.random(n) < density
    if density == 1.0:
        missing[:] = True
    if cls == "array":
        w = w.copy()
        w[missing] = numpy.nan
        return {"kind": "array", "values": w}
    w = w.copy()
    if missing.any() and not unit:
        w[missing] = numpy.array([pick(rng, [float("nan"), 1e300, 5.5, float("inf")])
                                  for _ in range(int(missing.sum()))])
    return {"kind": "tuple", "values": w, "validity": ~missing}


def fact_arg(fc):
    """Fresh argument object for the library (arrays are copies)."""
    if fc["validity"] is None:
        return fc["values"].copy()
    return (fc["values"].copy(), fc["validity"].copy())


def weight_arg(wc):
    if wc["kind"] == "none":
        return None
    if wc["kind"] == "scalar":
        return wc["values"]
    if wc["kind"] == "array":
        return wc["values"].copy()
    return (wc["values"].copy(), wc["validity"].copy())


def fact_parts(fc):
    """(float/int values, validity) as the reference model sees them."""
    v = fc["values"]
    if fc["validity"] is None:
        return v, ~numpy.isnan(v)
    return v, fc["validity"]


def weight_parts(wc, n):
    """(weights float (n,), validity (n,)) or (None, None)."""
    if wc["kind"] == "none":
        return None, None
    if wc["kind"] == "scalar":
        s = float(wc["values"])
        return numpy.full(n, s), numpy.full(n, not numpy.isnan(s))
    if wc["kind"] == "array":
        return wc["values"], ~numpy.isnan(wc["values"])
    return wc["values"], wc["validity"]
