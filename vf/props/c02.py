"""C02 - the count cube equals the brute-force contingency table.

Oracle: dense group-by over the dense twins of the dimensions (integer exact).
A source-text line probe on the walk reports which recursion arms ran."""
import numpy

from .. import gen, monitors, oracles

NaN = float("nan")

META = {
    "level": "exploration",
    "rule": ("cube = 0-4 row-aligned index dimensions (1-3 axes each, built with the constructor only), N in {0,1,2,3,5,8,17,40,60,120,300}, extents 1-5 (+ sparse cubes with extents 255..65536), common most frequent / any / absent inside / = extent, shape explicit (exact or padded) or inferred, report format NaN or (sentinel, False); sparse cubes of 2^28..2^32 rows (self-engaged pool), 2^24+k dense rows, 6-10 dimensions, lopsided row lists, one index object as two dimensions, in-place edits then recount, twin cases judged straight after one another. Non-trivial: >=2 dimensions and >=1 reconstructed (common-coordinate) cell with a non-zero count; distinct by content hash"),
    "require": {t: ["class:ndims=0", "class:ndims=3", "class:ndims=4", "class:axes=3", "class:common=outside",
                    "class:shape=inferred", "class:shape=explicit", "class:n=0", "class:big_extent",
                    "cells:common_coords=0", "cells:common_coords=1", "cells:common_coords=2", "cells:common_coords>=3",
                    "cells:reconstructed_nonzero", "class:edited_in_place_then_recounted", "class:n>2^24", "class:sparse_rows>=2^28",
                    "class:pool_engaged_by_the_cube_itself", "class:frequent_category_stored_explicitly"]
                for t in ("quick", "thorough")},
    "assumptions": ["category codes are 0..extent-1 (what a cube requires); an explicit shape covers every value and the common value"],
}
META["rule"] += '; round 7: lines of 120 000-400 000 rows whose never-visited common cell holds 1-3 rows (huge shard)'
for _t in META["require"]:
    META["require"][_t] = list(META["require"][_t]) + ['class:common_cell_of_1-3_rows_on_a_line_of_>=10^5_rows']


def shards(tier):
    if tier == "quick":
        return [{"label": "cubes%d" % i, "n": 1700} for i in range(13)] + [{"label": "big", "n": 16, "big": True},
                                                                          {"label": "huge", "n": 2, "huge": True, "mem_gib": 12},
                                                                          {"label": "sparse", "n": 40, "sparse": True}]
    return [{"label": "cubes%d" % i, "n": 70000} for i in range(15)] + [{"label": "big", "n": 600, "big": True},
                                                                             {"label": "huge", "n": 8, "huge": True, "mem_gib": 12},
                                                                             {"label": "sparse", "n": 1500, "sparse": True}]


def huge_case(rng):
    """More than 2^24 rows (where single precision stops holding every integer), very sparse."""
    n = 2 ** 24 + int(rng.integers(1, 9)) * 2 + 1
    ndims = int(rng.integers(1, 3))
    dense, commons, extents = [], [], []
    for d in range(ndims):
        ext = int(rng.integers(2, 4))
        a = numpy.zeros(n, dtype=numpy.int64)
        rows = rng.choice(n, size=int(rng.integers(3, 40)), replace=False)
        a[rows] = rng.integers(1, ext, size=len(rows))
        dense.append(a)
        commons.append(0)
        extents.append(ext)
    return {"dense": dense, "commons": commons, "shape": None, "extents": extents, "huge": True}


def sparse_case(rng, n=None, extras=None):
    """Indexes of 2^28..2^32 rows given by a handful of explicit cells (no dense twin is ever built).
    With three or more sub-cubes and rows x sub-cubes >= 2^30 the cube engages its worker pool on its
    own, so this is also the only place where the un-forced pooled path of the index cube runs.
    extras: the extra-axis extents of each dimension (a list of tuples), else drawn."""
    if n is None:
        n = int(gen.pick(rng, [2 ** 28 + 1, 2 ** 29, 2 ** 29 + 3, 2 ** 30, 2 ** 31 + 5, 2 ** 32 - 3, 2 ** 32]))
    ndims = int(rng.integers(1, 4)) if extras is None else len(extras)
    dims = []
    for d in range(ndims):
        ext = int(rng.integers(2, 5))
        extra = tuple(int(rng.integers(2, 7)) for _ in range(int(gen.pick(rng, [0, 1, 1, 2])))) if extras is None else tuple(extras[d])
        common = int(rng.integers(0, ext))
        cells = {}
        for _ in range(int(rng.integers(0, 25))):
            row = int(gen.pick(rng, [0, 1, n - 1, n - 2, int(rng.integers(0, n)), int(rng.integers(0, 50))]))
            pos = tuple(int(rng.integers(0, e)) for e in extra)
            v = int(rng.integers(0, ext))
            if v != common:
                cells[(row,) + pos] = v
        dims.append({"n": n, "extra": extra, "common": common, "extent": ext, "cells": sorted(cells.items())})
    return {"sparse": dims, "n": n, "rma": gen.pick(rng, [NaN, (0, False)])}


def judge_sparse(ctx, case):
    import catii
    import itertools

    n = case["n"]
    specs = case["sparse"]
    dims = []
    for sp in specs:
        entries = {}
        for (cell, v) in sp["cells"]:
            entries.setdefault((v,) + tuple(cell[1:]), []).append(cell[0])
        entries = {k: numpy.array(sorted(set(r)), dtype=numpy.uint32) for k, r in entries.items()}
        dims.append(catii.iindex(entries, sp["common"], (n,) + tuple(sp["extra"])))
    shape = tuple(sp["extent"] for sp in specs)
    cube = catii.ccube(dims, interacting_shape=shape)
    sub = int(numpy.prod([e for sp in specs for e in sp["extra"]] or [1]))
    ctx.count("class:sparse_rows>=2^28")
    if cube.parallel:
        ctx.count("class:pool_engaged_by_the_cube_itself")
    res = cube.count(return_missing_as=case["rma"])
    # sparse reference: only rows that hold an uncommon value somewhere need to be looked at
    sshape = tuple(e for sp in specs for e in sp["extra"])
    ref = numpy.zeros(sshape + shape, dtype=float)
    per_dim_pos = [list(numpy.ndindex(*sp["extra"])) if sp["extra"] else [()] for sp in specs]
    for pos in itertools.product(*per_dim_pos):
        spos = tuple(i for p in pos for i in p)
        rows = {}
        for d, (sp, p) in enumerate(zip(specs, pos)):
            for (cell, v) in sp["cells"]:
                if tuple(cell[1:]) == tuple(p):
                    rows.setdefault(cell[0], {})[d] = v
        for r, vals in rows.items():
            coord = tuple(vals.get(d, specs[d]["common"]) for d in range(len(specs)))
            ref[spos + coord] += 1
        ref[spos + tuple(sp["common"] for sp in specs)] += n - len(rows)
    ctx.evaluation({"sparse": specs, "n": n, "r": repr(case["rma"])}, len(specs) >= 2)
    if ctx.evals % 3 == 1:
        ctx.sample({"sparse_rows": n, "dims": [{"extra": list(sp["extra"]), "common": sp["common"], "explicit_cells": len(sp["cells"])} for sp in specs],
                    "sub_cubes": sub, "pool_engaged": bool(cube.parallel)})
    bad = oracles.compare(res, case["rma"], ref, ref == 0, 0.0)
    if bad:
        ctx.violation("count:sparse-huge:%s:pool=%s" % (bad[0], bool(cube.parallel)),
                      "%d rows, %d sub-cubes (pool engaged: %s): %s" % (n, sub, bool(cube.parallel), bad[1]), case)


def lopsided_case(rng):
    """A few thousand rows, a frequent category stored EXPLICITLY (the common value is a rare one),
    crossed with rare categories: long row-id lists intersected with short ones."""
    n = int(gen.pick(rng, [3000, 6000, 40000]))
    ndims = int(rng.integers(2, 4))
    dense, commons, extents = [], [], []
    for d in range(ndims):
        ext = int(rng.integers(3, 6))
        a = numpy.zeros(n, dtype=numpy.int64)
        rare = rng.choice(n, size=int(rng.integers(3, 60)), replace=False)
        a[rare] = rng.integers(1, ext, size=len(rare))
        if rng.random() < 0.5 and d:
            a[: int(rng.integers(2, 40))] = ext - 1          # adjacent rows
        dense.append(a)
        commons.append(int(rng.integers(1, ext)) if rng.random() < 0.8 else 0)
        extents.append(ext)
    return {"dense": dense, "commons": commons, "shape": None, "extents": extents}


def heavy_line_case(rng, i=0):
    """Proportions: 120 000 to 400 000 rows of which a line of the cube holds all but one, two or three rows in its
    explicit cells - the common cell of that line (never visited, reconstructed by subtracting two six-digit totals)
    is tiny next to what it is computed from."""
    n = [400000, 120000, 200001][i % 3]
    ext0, ext1 = int(rng.integers(2, 5)), int(rng.integers(2, 4))
    common0 = int(rng.integers(0, ext0 + 1))
    others = [v for v in range(ext0 + 1) if v != common0]
    a = numpy.asarray(others, dtype=numpy.int64)[rng.integers(0, len(others), size=n)]
    b = numpy.zeros(n, dtype=numpy.int64)
    light = rng.choice(n, size=int(rng.integers(0, 300)), replace=False)
    b[light] = rng.integers(1, ext1 + 1, size=len(light))
    heavy_rows = numpy.flatnonzero(b == 0)
    a[rng.choice(heavy_rows, size=1 if i % 2 == 0 else int(rng.integers(1, 4)), replace=False)] = common0     # the 1-3 rows of the common cell
    if rng.random() < 0.5 and i % 2:
        a[rng.choice(n, size=2, replace=False)] = common0
    dense = [a, b] if rng.random() < 0.5 else [b, a]
    commons = [common0, int(rng.integers(1, ext1 + 1))] if dense[0] is a else [int(rng.integers(1, ext1 + 1)), common0]
    extents = [ext0, ext1] if dense[0] is a else [ext1, ext0]
    return {"dense": dense, "commons": commons, "shape": None, "extents": extents, "huge": True}


def cases(ctx):
    rng = ctx.rng
    if ctx.shard.get("sparse"):
        for i in range(ctx.shard["n"]):
            yield sparse_case(rng)
        return
    if ctx.shard.get("huge"):
        for i in range(ctx.shard["n"]):
            c = huge_case(rng)
            c["rma"] = [NaN, (0, False)][i % 2]
            c["edit_seed"] = None
            yield c
        for i in range(max(4, ctx.shard["n"])):
            c = heavy_line_case(rng, i)
            ctx.count("class:common_cell_of_1-3_rows_on_a_line_of_>=10^5_rows")
            c["rma"] = [NaN, (0, False)][i % 2]
            c["edit_seed"] = None
            yield c
        return
    for i in range(ctx.shard["n"]):
        if ctx.shard.get("big"):
            c = gen.cube_case(rng, ndims=int(rng.integers(1, 3)), n=gen.pick(rng, [5, 60, 300]), max_axes=1,
                              big_extent=True)
        elif i % 60 == 17:
            c = lopsided_case(rng)
            ctx.count("class:frequent_category_stored_explicitly")
        elif i % 60 == 29:
            # many dimensions (a deep walk, a 6- to 10-axis result)
            c = gen.cube_case(rng, ndims=int(gen.pick(rng, [6, 8, 10])), max_axes=1, max_extent=2, n=int(gen.pick(rng, [12, 40])),
                              allow_outside_common=False)
            ctx.count("class:six_to_ten_dimensions")
        elif i % 60 == 43:
            c = gen.lopsided_cube_case(rng)
            ctx.count("class:frequent_category_stored_explicitly")
        else:
            c = gen.cube_case(rng, n=(2000 if rng.random() < 0.3 else gen.pick(rng, [255, 256, 257, 65535, 65536, 65537]))
                              if rng.random() < 0.03 else None)
        c["rma"] = gen.pick(rng, [NaN, NaN, (0, False), (-1, False), (7, False)])
        c["edit_seed"] = int(rng.integers(0, 2 ** 31)) if rng.random() < 0.35 else None
        yield c


def twins(ctx, case):
    """The same cube with the highest category of one dimension re-labelled one up (then back down): same shapes,
    common values and numbers of entries, another inferred extent."""
    if "sparse" in case or case.get("shape") is not None or not case["dense"] or case["dense"][0].shape[0] > 5000:
        return
    if case_number(case) % 5:
        return
    dense = [numpy.asarray(d) for d in case["dense"]]
    d = case_number(case) // 5 % len(dense)
    a = dense[d]
    if not a.size:
        return
    top = int(a.max())
    if top == case["commons"][d] or top + 1 == case["commons"][d]:
        return
    b = a.copy()
    b[b == top] = top + 1
    ext = list(case["extents"])
    ext[d] = max(ext[d], top + 2)
    up = dict(case, dense=dense[:d] + [b] + dense[d + 1:], extents=ext, edit_seed=None)
    ctx.count("class:twin_with_other_top_category")
    yield up
    yield dict(case, edit_seed=None)


def classify(code, lineno, text):
    t = text.strip()
    if code.co_name != "_walk":
        return None
    if t.startswith("self._walk(remaining_dims, base_coords + coords, rowids, funcs)"):
        return "arm:recurse"
    if t.startswith("self._walk(remaining_dims, base_coords + (-1,)"):
        return "arm:margin_recurse"
    if t.startswith("func(base_coords + (-1,), base_rowids)"):
        return "arm:margin_leaf"
    if t.startswith("rowids = set_intersect_merge_np"):
        return "arm:intersect"
    return None


_probe = None


def probe():
    """Source-text line probe of the walk's arms: evidence only; absent if the code moved."""
    global _probe
    if _probe is None:
        try:
            import catii

            _probe = monitors.LineProbe([catii.ccube.__dict__["_walk"]], classify)
            _probe.install()
        except Exception:
            from .c01 import _NoProbe

            _probe = _NoProbe()
    return _probe


def case_number(case):
    """A number derived from the case content alone (so that replays take the same branches)."""
    d = [numpy.asarray(x) for x in case["dense"]]
    return int(sum(int(x.sum()) + x.size for x in d) + sum(case["commons"]) + len(d))


def judge(ctx, case):
    import catii

    if "sparse" in case:
        return judge_sparse(ctx, case)
    dense = [numpy.asarray(d) for d in case["dense"]]
    commons = case["commons"]
    n = dense[0].shape[0] if dense else int(case.get("N", 7))
    dims = gen.cube_dims(case)
    shape = case["shape"]
    rma = case["rma"]
    ctx.count("class:ndims=%d" % len(dense))
    for d in dense:
        ctx.count("class:axes=%d" % d.ndim)
    ctx.count("class:n=0" if n == 0 else ("class:n>2^24" if n > 2 ** 24 else "class:n>0"))
    ctx.count("class:shape=" + ("explicit" if shape is not None else "inferred"))
    for c, e in zip(commons, case["extents"]):
        ctx.count("class:common=" + ("outside" if c >= e else "inside"))
    if any(e >= 255 for e in case["extents"]):
        ctx.count("class:big_extent")
    exp_shape = tuple(shape) if shape is not None else gen.inferred_shape(case)

    pr = probe()
    pr.arm()
    cube = catii.ccube(dims, interacting_shape=shape)
    res = cube.count(N=n if not dims else None, return_missing_as=rma)
    for lab in pr.labels():
        ctx.count(lab)

    if tuple(cube.shape) != oracles.scaffold_shape(dense) + exp_shape:
        ctx.violation("cube-shape", "cube.shape %r, expected %r" % (cube.shape, oracles.scaffold_shape(dense) + exp_shape), case)
        return
    ref_v, ref_m = oracles.reference("count", dense, exp_shape, n)
    # label cells by the number of coordinates that are a dimension's common value
    ns = len(oracles.scaffold_shape(dense))
    recon_nonzero = False
    if ref_v.size <= 200000 and dense:
        grid = numpy.indices(ref_v.shape)
        ncommon = numpy.zeros(ref_v.shape, dtype=int)
        for a, c in enumerate(commons):
            ncommon += (grid[ns + a] == c)
        for k in range(0, 5):
            cnt = int((ncommon == k).sum()) if k < 3 else int((ncommon >= 3).sum())
            if cnt:
                ctx.count("cells:common_coords=%d" % k if k < 3 else "cells:common_coords>=3", cnt)
            if k >= 3:
                break
        recon_nonzero = bool(((ncommon >= 1) & (ref_v > 0)).any())
        if recon_nonzero:
            ctx.count("cells:reconstructed_nonzero", int(((ncommon >= 1) & (ref_v > 0)).sum()))
    ctx.evaluation({"d": dense, "c": commons, "s": shape, "r": repr(rma)}, len(dense) >= 2 and recon_nonzero)
    if ctx.evals % 293 == 1:
        ctx.sample({"dense": dense, "commons": commons, "shape": shape, "return_missing_as": repr(rma)})
    bad = oracles.compare(res, rma, ref_v, ref_m, 0.0)
    feat = "ndims=%d,axes=%s" % (len(dense), max([d.ndim for d in dense] + [0]))
    if bad:
        ctx.violation("count:%s:%s" % (bad[0], feat), bad[1], case)
        return
    # The same index OBJECT may stand for two dimensions of one cube (a variable crossed with itself).
    if dense and 0 < n <= 2 ** 20 and case_number(case) % 4 == 0:
        j = case_number(case) // 4 % len(dense)
        pos = case_number(case) // 16 % (len(dense) + 1)
        dense_r = dense[:pos] + [dense[j]] + dense[pos:]
        dims_r = dims[:pos] + [dims[j]] + dims[pos:]
        shape_r = exp_shape[:pos] + (exp_shape[j],) + exp_shape[pos:]
        cells = int(numpy.prod(oracles.scaffold_shape(dense_r) + shape_r))
        if cells <= 100000:
            ctx.count("class:same_index_object_as_two_dimensions")
            if dense[j].ndim > 1:
                ctx.count("class:same_multi_axis_object_as_two_dimensions")
            res_r = catii.ccube(dims_r, interacting_shape=shape_r if shape is not None else None).count(return_missing_as=rma)
            ref_vr, ref_mr = oracles.reference("count", dense_r, shape_r, n)
            ctx.evaluation({"d": dense, "c": commons, "s": shape, "r": repr(rma), "twice": [j, pos]}, True)
            bad = oracles.compare(res_r, rma, ref_vr, ref_mr, 0.0)
            if bad:
                ctx.violation("count-with-one-object-as-two-dimensions:%s:%s" % (bad[0], feat),
                              "dimension %d given again (the same object) at position %d: %s" % (j, pos, bad[1]), case)
                return
    # The dimensions are ordinary mutable indexes: after cells of one of them are re-assigned in place
    # (between categories that stay inside the cube's extents) a new cube over the same objects must
    # count the new data.
    if dense and n and case.get("edit_seed") is not None:
        r2 = numpy.random.default_rng(case["edit_seed"])
        d = int(r2.integers(0, len(dense)))
        a = dense[d].copy()
        present = numpy.unique(a).tolist()
        ncell = int(r2.integers(1, 4))
        flat = r2.choice(a.size, size=min(ncell, a.size), replace=False)
        groups = {}
        for f in flat:
            cell = tuple(int(i) for i in numpy.unravel_index(int(f), a.shape))
            v = int(present[int(r2.integers(0, len(present)))])
            a[cell] = v
            groups.setdefault((v,) + cell[1:], []).append(cell[0])
        dims[d].update({k: numpy.array(sorted(rows), dtype=numpy.uint32) for k, rows in groups.items()})
        dense2 = list(dense)
        dense2[d] = a
        ctx.count("class:edited_in_place_then_recounted")
        res2 = catii.ccube(dims, interacting_shape=exp_shape).count(return_missing_as=rma)
        ref_v2, ref_m2 = oracles.reference("count", dense2, exp_shape, n)
        bad = oracles.compare(res2, rma, ref_v2, ref_m2, 0.0)
        ctx.evaluation({"d": dense2, "c": commons, "s": shape, "r": repr(rma), "edited": True}, len(dense) >= 2)
        if bad:
            ctx.violation("count-after-in-place-update:%s:%s" % (bad[0], feat),
                          "after update() of dimension %d a new cube over the same index objects: %s" % (d, bad[1]), case)
