"""C01 - array -> inverted index -> array is lossless.

Oracle: NumPy (the input array, or the mapping applied to it element-wise).
Workload: stratified cross product of shape / alphabet / sparsity / common /
counts / mapping / way-back classes; a source-text line probe reports which
construction arm of from_array each case took."""
import numpy

from .. import gen, monitors

I64 = numpy.int64

META = {
    "level": "exploration",
    "rule": ("case = (array, counts?, common class, mapping class, way back); arrays 1-D/2-D, N in {0,1,2,3,7,17,64,80,81,200,1000,5000,(2e4,2e5)}, alphabets incl. dtype boundaries up to 2^63-1 and negatives down to -2^63, sparsity uniform..99.95% common, any storage dtype that holds the alphabet; every memory layout (C, F, strided, list); fixed corners of >2^20 rows / >2^22 cells (both strategies, a value in three cells only), >65536 distinct values, >255 columns; coarsening mappings (30-400 inputs onto few categories); counts dicts in any key order; second construction from the same option objects. Non-trivial: >=2 distinct values and >=1 cell different from the stored common; distinct by content hash of the case"),
    "require": {"quick": ["class:rowscan_shape", "class:mapping=many_to_one", "class:common=absent",
                          "class:alphabet=neg", "class:alphabet=b63", "class:counts=given", "class:back=mapping",
                          "class:n=0", "class:ndim=2", "class:layout=F", "class:layout=strided", "class:layout=list",
                          "class:options_reused", "class:alphabet=sbound", "class:n>2^20", "class:columns>255",
                          "class:counts_order=most_common", "class:counts_order=first_seen", "class:alphabet=many_inputs_few_categories"],
                "thorough": ["class:rowscan_shape", "class:mapping=many_to_one", "class:common=absent",
                             "class:alphabet=neg", "class:alphabet=b63", "class:counts=given", "class:back=mapping",
                             "class:n=0", "class:ndim=2", "class:n>=20000"]},
    "assumptions": ["N=0 without a common value and without a mapping is refused by from_array by contract (ValueError 'No values or common value provided'): not generated",
                    "integer categories only (str/object categories are outside the property)"],
}

N_QUICK = [0, 1, 2, 3, 7, 17, 64, 80, 81, 200, 1000]
MAPPING_CLASSES = ["none", "none", "shift", "permute", "negate", "large", "many_to_one", "into_common", "all_to_one"]
BACK_CLASSES = ["default", "default", "int64", "narrow", "mapping"]


HUGE_CORNERS = [{"ndim": 1, "dist": "verysparse", "mapping": "none", "common": "omitted"},
                {"ndim": 2, "dist": "verysparse", "mapping": "none", "common": "omitted"},
                {"ndim": 1, "dist": "skew", "mapping": "shift", "common": "frequent"},
                # more than 2^22 cells with only three distinct values, two of them rare (counts left to the library)
                {"ndim": 1, "dist": "verysparse", "mapping": "none", "common": "omitted", "few": True, "n": 2 ** 22 + 5, "counts": False},
                {"ndim": 2, "dist": "verysparse", "mapping": "none", "common": "omitted", "few": True, "cols": 4, "counts": False}]


def shards(tier):
    if tier == "quick":
        return [{"label": "mix%d" % i, "kind": "mix", "n": 9000, "crash_is_violation": True} for i in range(13)] + \
               [{"label": "rowscan", "kind": "rowscan", "n": 1000, "crash_is_violation": True},
                {"label": "huge", "kind": "huge", "n": 6, "crash_is_violation": True, "mem_gib": 12},
                {"label": "wide", "kind": "wide", "n": 12, "crash_is_violation": True, "mem_gib": 12}]
    out = [{"label": "mix%d" % i, "kind": "mix", "n": 70000, "crash_is_violation": True} for i in range(13)]
    out += [{"label": "rowscan%d" % i, "kind": "rowscan", "n": 8000, "crash_is_violation": True} for i in range(3)]
    out += [{"label": "big", "kind": "big", "n": 60, "crash_is_violation": True, "mem_gib": 12}]
    out += [{"label": "huge%d" % i, "kind": "huge", "n": 8, "crash_is_violation": True, "mem_gib": 12} for i in range(2)]
    out += [{"label": "wide", "kind": "wide", "n": 60, "crash_is_violation": True, "mem_gib": 12}]
    return out


# --------------------------------------------------------------------------- #
def make_case(rng, kind, force=None):
    force = force or {}
    if kind == "rowscan":
        # >=5 distinct values and a tiny uncommon share: drives the per-row scan strategy
        n = gen.pick(rng, [80, 81, 120, 200, 500, 1000, 3000])
        acls = gen.pick(rng, ["small", "gapped", "neg", "mixed", "b8", "b16"])
        vals = gen.alphabet(rng, acls, kmin=5, kmax=9)
        while len(vals) < 5:
            vals = vals + [max(vals) + 1 + len(vals)]
        dist = gen.pick(rng, ["sparse", "verysparse"])
    elif kind == "big":
        n = gen.pick(rng, [20000, 200000])
        acls = gen.pick(rng, ["small", "gapped", "neg", "b16"])
        vals = gen.alphabet(rng, acls, kmin=2, kmax=9)
        dist = gen.pick(rng, ["uniform", "skew", "sparse", "verysparse"])
    elif kind == "huge":
        # more than 2^20 rows (block-wise processing), both strategies
        n = 2 ** 20 + int(gen.pick(rng, [1, 5, 4097, 300000]))
        acls = gen.pick(rng, ["small", "gapped", "neg"])
        vals = gen.alphabet(rng, acls, kmin=5, kmax=9)
        while len(vals) < 5:
            vals = vals + [max(vals) + 1 + len(vals)]
        dist = gen.pick(rng, ["verysparse", "sparse", "skew"])
    elif kind == "coarsen":
        # a variable with MANY distinct values (30..400, spread over a wide or a narrow range) that a many-to-one
        # mapping coarsens into a few categories, most inputs going to one of them
        n = int(gen.pick(rng, [120, 500, 1000, 3000]))
        k = int(gen.pick(rng, [30, 60, 150, 400]))
        span = int(gen.pick(rng, [k + 5, 10 * k, 10 ** 6, 2 ** 31 - 1]))
        lo_ = int(gen.pick(rng, [0, 0, -span // 2]))
        vals = sorted(set(int(v) + lo_ for v in rng.choice(span, size=k, replace=False).tolist())) if span < 2 ** 30 else \
            sorted(set(int(v) + lo_ for v in rng.integers(0, span, size=k).tolist()))
        acls, dist = "many_inputs_few_categories", "coarsen"
    elif kind == "wide":
        # many distinct values (> 256, > 65536) or many columns (> 256)
        if rng.random() < 0.5:
            k = int(gen.pick(rng, [300, 70000]))
            n = k + int(rng.integers(0, 50))
            vals = [int(v) for v in rng.permutation(k)]
            acls, dist = "many_values", "ties"
        else:
            n = int(gen.pick(rng, [1, 3, 8]))
            acls = "small"
            vals = gen.alphabet(rng, acls)
            dist = gen.pick(rng, gen.DIST_CLASSES)
    else:
        n = gen.pick(rng, N_QUICK + ([5000] if rng.random() < 0.03 else []))
        acls = gen.pick(rng, gen.ALPHABET_CLASSES)
        vals = gen.alphabet(rng, acls)
        dist = gen.pick(rng, gen.DIST_CLASSES)
    ndim = 1 if rng.random() < 0.55 else 2
    if kind == "huge":
        ndim = 1 if rng.random() < 0.75 else 2
        dist = gen.pick(rng, ["verysparse", "sparse", "sparse", "skew"])
    ndim = force.get("ndim", ndim)
    dist = force.get("dist", dist)
    n = force.get("n", n)
    if force.get("few"):
        vals = vals[:3]
    if kind == "wide" and acls == "small":
        ndim = 2
    if ndim == 2:
        cols = gen.pick(rng, [1, 2, 3, 5] if n <= 1000 else [2])
        cols = force.get("cols", cols)
        if kind == "wide" and acls == "small":
            cols = int(gen.pick(rng, [256, 257, 300]))
        shape = (n, cols)
    else:
        shape = (n,)
    coarse = None
    if dist == "coarsen":
        # 4..8 "special" inputs keep categories of their own, every other input goes to category 0
        m = int(rng.integers(4, 9))
        special = [vals[int(i)] for i in rng.choice(len(vals), size=min(m, len(vals) - 1), replace=False)]
        coarse = {v: 0 for v in vals}
        for j, v in enumerate(special):
            coarse[v] = j + 1
        rest = [v for v in vals if v not in set(special)]
        total = int(numpy.prod(shape))
        share = float(gen.pick(rng, [0.01, 0.03, 0.3]))
        pick_special = rng.random(total) < share
        flat = numpy.where(pick_special, numpy.array(special, dtype=numpy.int64)[rng.integers(0, len(special), size=total)],
                           numpy.array(rest, dtype=numpy.int64)[rng.integers(0, len(rest), size=total)])
    else:
        flat = gen.draw_values(rng, int(numpy.prod(shape)), vals, dist)
    if kind == "huge" and len(flat):
        # uncommon values beyond row 2^20, up to the very last row
        u, c = numpy.unique(flat[:100000], return_counts=True)
        rare = [v for v in vals if v != int(u[int(numpy.argmax(c))])]
        for pos in (-1, -2, 2 ** 20 * (1 if ndim == 1 else shape[1]) + 3):
            if -len(flat) <= pos < len(flat):
                flat[pos] = gen.pick(rng, rare)
    if force.get("few") and len(flat) > 100:
        # one value almost everywhere, a second one in a thousand cells, a third one in just three cells (flat positions
        # that are not multiples of 16 / not in the first column): whatever the library estimates from a sample or a
        # prefix of the data, the third value has to come back
        flat[:] = vals[0]
        flat[rng.choice(len(flat), size=1000, replace=False)] = vals[1]
        for pos in (len(flat) - 1, len(flat) - 2, len(flat) // 2 + 3):
            while pos % 16 == 0 or (ndim == 2 and pos % shape[1] == 0):
                pos -= 1
            flat[pos] = vals[2]
    lo, hi = (min(vals), max(vals))
    dts = gen.storage_dtypes(lo, hi)
    dt = gen.pick(rng, dts) if dts else numpy.dtype(object)
    a = flat.astype(dt).reshape(shape)
    present = sorted(set(int(x) for x in numpy.unique(a).tolist())) if a.size else []

    # common class
    ccls = gen.wpick(rng, [("omitted", 4), ("frequent", 2), ("rare", 2), ("absent", 2)])
    ccls = force.get("common", ccls)
    if n == 0 or not present:
        ccls = gen.pick(rng, ["absent", "absent", "omitted"])
    common = None
    if ccls == "frequent":
        u, c = numpy.unique(a, return_counts=True)
        common = int(u[int(numpy.argmax(c))])
    elif ccls == "rare":
        u, c = numpy.unique(a, return_counts=True)
        common = int(u[int(numpy.argmin(c))])
    elif ccls == "absent":
        cand = [v for v in vals if v not in present] + [hi + 1 if hi < 2 ** 63 - 1 else lo - 1, lo - 1 if lo > -2 ** 63 else hi + 1]
        cand = [v for v in cand if v not in present and -2 ** 63 <= v < 2 ** 63]
        common = int(gen.pick(rng, cand)) if cand else None
        if common is None:
            ccls = "omitted"

    # mapping class
    mcls = force.get("mapping", gen.pick(rng, MAPPING_CLASSES))
    if coarse is not None:
        mcls = "coarsen"
    domain = list(dict.fromkeys(present + ([common] if common is not None else [])))
    mapping = None
    if mcls != "none" and domain:
        if mcls == "shift":
            k = int(gen.pick(rng, [1, -3, 1000, 2 ** 33]))
            mapping = {v: v + k for v in domain}
        elif mcls == "permute":
            perm = list(domain)
            rng.shuffle(perm)
            mapping = dict(zip(domain, [int(x) for x in perm]))
        elif mcls == "negate":
            mapping = {v: -v - 1 for v in domain}
        elif mcls == "large":
            mapping = {v: (i + 1) * 2 ** 40 + 5 for i, v in enumerate(domain)}
        elif mcls == "many_to_one":
            # merge two (or three) values; the others stay distinct
            mapping = {v: i + 10 for i, v in enumerate(domain)}
            if len(domain) >= 2:
                grp = [int(x) for x in rng.choice(len(domain), size=min(len(domain), int(rng.integers(2, 4))), replace=False)]
                for g in grp[1:]:
                    mapping[domain[g]] = mapping[domain[grp[0]]]
        elif mcls == "into_common":
            mapping = {v: i + 10 for i, v in enumerate(domain)}
            if a.size:
                u, c = numpy.unique(a, return_counts=True)
                top = int(u[int(numpy.argmax(c))]) if common is None else common
                others = [v for v in domain if v != top]
                if others:
                    mapping[int(gen.pick(rng, others))] = mapping[top]
        elif mcls == "all_to_one":
            mapping = {v: 7 for v in domain}
        elif mcls == "coarsen":
            off = int(gen.pick(rng, [0, 0, 5, -3]))
            mapping = {v: coarse.get(v, 0) + off for v in domain}
        mapping = {int(k): int(v) for k, v in mapping.items() if -2 ** 63 <= int(v) < 2 ** 63} \
            if all(-2 ** 63 <= int(v) < 2 ** 63 for v in mapping.values()) else None
        if mapping is None:
            mcls = "none"
    else:
        mcls = "none"
    if n == 0 and common is None and mapping is None:
        # refused by contract: give it a common value
        common, ccls = int(vals[0]), "absent"
    counts = force.get("counts", rng.random() < 0.4)
    back = gen.pick(rng, BACK_CLASSES)
    layout = gen.wpick(rng, [("C", 6), ("F", 1), ("strided", 1), ("list", 1)])
    if ndim == 2 and n and rng.random() < 0.02 and common is not None and mapping is None:
        a = a[:, :0]          # a (N, 0) array: no cells at all
    return {"layout": layout, "a": a, "common": common, "common_class": ccls, "mapping": mapping, "mapping_class": mcls,
            "counts": bool(counts), "back": back, "alphabet": acls, "dist": dist}


def cases(ctx):
    kind = ctx.shard["kind"]
    for i in range(ctx.shard["n"]):
        force = None
        if kind == "huge":
            # the first cases of every huge shard are the fixed corners (both strategies, both ranks); the rest is drawn
            force = HUGE_CORNERS[i] if i < len(HUGE_CORNERS) else None
        if kind in ("mix", "rowscan") and i % 50 == 11:
            yield make_case(ctx.rng, "coarsen")
            continue
        yield make_case(ctx.rng, kind, force)


def case_order(case):
    """A number derived from the case content alone (replayable): which key order the counts dict is given in."""
    a = numpy.asarray(case["a"])
    return int(a.size + (int(a.ravel()[0]) if a.size and a.dtype != object else 0) + len(case.get("back", "")))


def vmap(mapping, arr):
    flat = [mapping[int(v)] for v in arr.ravel().tolist()]
    return numpy.array(flat, dtype=object).reshape(arr.shape)


def classify_line(code, lineno, text):
    t = text.strip()
    if "numpy.where(col ==" in t:
        return "arm:where_2d"
    if "numpy.where(values ==" in t:
        return "arm:where_1d"
    if ".append(rowid)" in t:
        return "arm:rowscan_2d" if "colid" in t else "arm:rowscan_1d"
    if "numpy.bincount(" in t:
        return "arm:count_bincount"
    if "numpy.unique(" in t:
        return "arm:count_unique"
    return None


_probe = None


class _NoProbe:
    def arm(self):
        pass

    def labels(self):
        return ()


def probe():
    """Source-text line probe of the construction arms: evidence only; absent if the code moved."""
    global _probe
    if _probe is None:
        try:
            from catii import iindex

            _probe = monitors.LineProbe([iindex.__dict__["from_array"]], classify_line)
            _probe.install()
        except Exception:
            _probe = _NoProbe()
    return _probe


def judge(ctx, case):
    from catii import iindex

    a = numpy.asarray(case["a"])
    common, mapping = case["common"], case["mapping"]
    n = a.shape[0]
    present = sorted(set(int(x) for x in a.ravel().tolist())) if a.size else []
    # input classes (independent of the code under test)
    ctx.count("class:ndim=%d" % a.ndim)
    ctx.count("class:n=0" if n == 0 else ("class:n>2^20" if n > 2 ** 20 else ("class:n>=20000" if n >= 20000 else "class:n>0")))
    if a.ndim == 2 and a.shape[1] > 255:
        ctx.count("class:columns>255")
    if len(present) > 65536:
        ctx.count("class:distinct_values>65536")
    ctx.count("class:alphabet=" + case.get("alphabet", "?"))
    ctx.count("class:common=" + case.get("common_class", "?"))
    ctx.count("class:mapping=" + case.get("mapping_class", "?"))
    ctx.count("class:counts=" + ("given" if case["counts"] else "omitted"))
    ctx.count("class:back=" + case["back"])
    if a.size:
        u, c = numpy.unique(a, return_counts=True)
        if len(u) >= 5 and (a.size - c.max()) / a.size < 0.05 and a.size >= 80:
            ctx.count("class:rowscan_shape")

    kw = {}
    if case["counts"]:
        if a.size:
            u, c = numpy.unique(a, return_counts=True)
            items = list(zip([int(x) for x in u.tolist()], [int(x) for x in c.tolist()]))
            # the caller's dict may be in any key order (collections.Counter: first seen / most common first)
            order = ["ascending", "most_common", "first_seen", "descending"][case_order(case) % 4]
            if order == "most_common":
                items.sort(key=lambda kv: -kv[1])
            elif order == "first_seen":
                first = {}
                for v in a.ravel().tolist():
                    first.setdefault(int(v), len(first))
                items.sort(key=lambda kv: first[kv[0]])
            elif order == "descending":
                items.reverse()
            ctx.count("class:counts_order=" + order)
            kw["counts"] = dict(items)
        else:
            kw["counts"] = {}
    if common is not None:
        kw["common"] = common
    if mapping is not None:
        kw["mapping"] = dict(mapping)

    if present and max(abs(present[0]), abs(present[-1])) >= 2 ** 31 and not case["counts"] and a.size <= 5000:
        ctx.inflight(case)
    # memory layout of the argument (the content is the same)
    layout = case.get("layout", "C")
    if layout == "F":
        arg = numpy.asfortranarray(a)
    elif layout == "strided" and a.dtype != object:
        big = numpy.zeros((2 * a.shape[0],) + a.shape[1:], dtype=a.dtype)
        big[::2] = a
        arg = big[::2]
    elif layout == "list" and a.dtype != object and a.size:
        arg = a.tolist()
    else:
        arg = a.copy()
    ctx.count("class:layout=" + layout)
    pr = probe()
    pr.arm()
    idx = iindex.from_array(arg, **kw)
    for lab in pr.labels():
        ctx.count(lab)
    ctx.inflight(None)
    if ctx.evals % 3 == 0 and a.size:
        # the caller may go on using the same counts / mapping objects: a second construction from the
        # very same objects (here with the common value left to the library) must round-trip as well
        kw2 = {k: v for k, v in kw.items() if k != "common"}
        idx2 = iindex.from_array(a.copy(), **kw2)
        ctx.count("class:options_reused")
        e2 = a.astype(object) if mapping is None else vmap(mapping, a)
        if not numpy.array_equal(idx2.to_array(dtype=object if e2.dtype == object and max(abs(int(x)) for x in e2.ravel().tolist()) >= 2 ** 63 else numpy.int64).astype(object), e2):
            ctx.violation("mismatch-on-reused-options:ndim=%d,map=%s,counts=%s" % (a.ndim, case.get("mapping_class"), case["counts"]),
                          "a second from_array with the same counts/mapping objects does not round-trip (first call changed them?)", case)
            return

    e = a.astype(object) if mapping is None else vmap(mapping, a)
    stored_common = idx.common
    back = case["back"]
    vals_e = [int(x) for x in set(e.ravel().tolist())]
    allv = vals_e + ([int(stored_common)] if isinstance(stored_common, (int, numpy.integer)) else [])
    m2 = None
    if back == "default":
        b = idx.to_array()
    elif back == "int64":
        b = idx.to_array(dtype=numpy.int64)
    elif back == "narrow":
        dts = gen.storage_dtypes(min(allv), max(allv)) if allv else [numpy.dtype("u1")]
        b = idx.to_array(dtype=dts[0])
    else:
        dom = sorted(set(allv))
        if ctx.rng.random() < 0.5 or any(abs(v) > 2 ** 61 for v in dom):
            m2 = {v: i + 3 for i, v in enumerate(dom)}
        else:
            m2 = {v: -2 * v - 1 for v in dom}
        b = idx.to_array(mapping=dict(m2))
        e = vmap(m2, e)

    distinct = len(set(e.ravel().tolist())) if e.size else 0
    n_uncommon = sum(len(v) for v in dict.values(idx))
    ctx.evaluation({"a": a, "kw": {k: v for k, v in kw.items() if k != "counts"}, "counts": case["counts"],
                    "back": back, "m2": m2}, distinct >= 2 and n_uncommon >= 1)
    if ctx.evals % 97 == 1:
        ctx.sample({"a": a, "common": common, "mapping": mapping, "counts": case["counts"], "back": back})

    feat = "ndim=%d,map=%s,common=%s,back=%s" % (a.ndim, case.get("mapping_class"), case.get("common_class"), back)
    if not isinstance(b, numpy.ndarray) or b.shape != a.shape:
        ctx.violation("shape:" + feat, "round trip shape %r != %r" % (getattr(b, "shape", None), a.shape), case)
        return
    if b.dtype.kind not in "iu" and b.size:
        ctx.violation("dtype:" + feat, "round trip dtype %s is not an integer dtype" % b.dtype, case)
        return
    bo = b.astype(object)
    if not numpy.array_equal(bo, e):
        bad = numpy.argwhere(bo != e)
        pos = tuple(int(x) for x in bad[0])
        # failure signature: which kind of cell is wrong
        ctx.violation("mismatch:" + feat,
                      "round trip differs in %d of %d cells; first at %r: got %r expected %r (stored common %r)"
                      % (len(bad), e.size, pos, bo[pos], e[pos], stored_common), case)
