"""C09 - the compiled kernels never touch memory outside their buffers.

Oracle: the instrumentation itself, on two complementary rebuilds of the
working-tree .pyx:
  bc    bounds checks switched on (wraparound stays off, so a negative index is out of range too) -> IndexError per out-of-range access
        (also inside views of larger buffers, which red zones cannot see)
  asan  clang AddressSanitizer+UBSan -> report on stderr (physical heap red zones,
        reads and writes, incl. the output buffer)
Each case is tied to the sanitizer output it produced by watching the growth of
the process's own stderr after every call."""
import ctypes
import itertools
import os
import re

import numpy

from .. import kernels as K

U32 = numpy.uint32

META = {
    "level": "exploration",
    "rule": ("all ordered pairs of subsets of a 6-element universe (quick) / 8 (thorough), 3 kernels, under operand "
             "presentations {own allocation, view inside a larger buffer, strided view, read-only, reversed view, field of a packed "
             "record array (byte stride 6)}, on the bounds-checked "
             "and on the ASan+UBSan build; multi-way union lists; size-ladder lopsided pairs; several threads inside the kernels "
             "at once; in-situ cube walks and set updates; a value in an output that occurs in no operand counts as a read "
             "outside the operands. Non-trivial: >=1 "
             "operand empty, or one operand exhausted strictly before the other, or an operand that is a view inside a "
             "larger buffer; distinct by (variant, kernel, presentation, operand contents)"),
    "require": {"quick": ["bc:kernel_calls", "asan:kernel_calls", "asan:canary_detected", "bc:checks_on",
                          "asan:many_calls", "bc:many_calls", "asan:insitu_calls", "bc:insitu_calls",
                          "one_empty_operand_calls", "class:very_unequal_lengths", "class:lopsided_ladder", "class:operand>65536",
                          "bc:threads:calls_overlapping_another_thread's_call", "asan:threads:calls_overlapping_another_thread's_call"],
                "thorough": ["bc:kernel_calls", "asan:kernel_calls", "asan:canary_detected", "bc:checks_on",
                             "asan:many_calls", "bc:many_calls", "asan:insitu_calls", "bc:insitu_calls",
                             "one_empty_operand_calls",
                             "bc:threads:calls_overlapping_another_thread's_call", "asan:threads:calls_overlapping_another_thread's_call"]},
    "exhaustive": {"quick": "all 4096 ordered subset pairs of a 6-element universe per (variant, presentation pair)",
                   "thorough": "all 65536 ordered subset pairs of an 8-element universe per (variant, presentation pair)"},
    "assumptions": [
        "ASan sees only accesses that leave a heap allocation's red zone; the bounds-checked build sees every "
        "memoryview access but is a textual transform of the source (boundscheck switched on; wraparound left off as in production, so a negative index raises instead of counting from the end)",
        "a clean run is not memory safety; it is absence of reports on the executions produced"],
}
META["rule"] += "; round 7: 'steps' shards - operands used up exactly on step 2^k-1, 2^k, 2^k+1 (k up to 24 quick / 25 thorough) of the two-pointer merge, each a view whose following word is an element of the other operand"
for _t in META["require"]:
    META["require"][_t] = list(META["require"][_t]) + ['class:operand_used_up_on_step_2^k+0']

PRES_PAIRS = [("own", "own"), ("view_in_buffer", "view_in_buffer"), ("strided", "own"), ("own", "strided"),
              ("readonly", "readonly"), ("view_in_buffer", "own"), ("reversed", "strided"), ("strided", "reversed"),
              ("record_field", "own"), ("record_field_reversed", "record_field")]


def shards(tier):
    size = 6 if tier == "quick" else 8
    out = []
    for variant in ("bc", "asan"):
        for pl, pr in PRES_PAIRS:
            out.append({"label": "%s-%s/%s" % (variant, pl, pr), "variant": variant, "kind": "exhaustive",
                        "size": size, "pl": pl, "pr": pr, "crash_is_violation": True})
        out.append({"label": variant + "-many", "variant": variant, "kind": "many",
                    "n": 1500 if tier == "quick" else 15000, "crash_is_violation": True})
        out.append({"label": variant + "-insitu", "variant": variant, "kind": "insitu",
                    "n": 60 if tier == "quick" else 600, "crash_is_violation": True})
        out.append({"label": variant + "-random", "variant": variant, "kind": "random",
                    "n": 600 if tier == "quick" else 8000, "crash_is_violation": True})
        out.append({"label": variant + "-steps", "variant": variant, "kind": "steps",
                    "targets": [2 ** 12, 2 ** 16, 2 ** 20, 2 ** 24] if tier == "quick" else [2 ** 10, 2 ** 12, 2 ** 15, 2 ** 16, 2 ** 20, 2 ** 22, 2 ** 24, 2 ** 25],
                    "crash_is_violation": True})
        out.append({"label": variant + "-threads", "variant": variant, "kind": "threads",
                    "n": 2 if tier == "quick" else 12, "crash_is_violation": True})
    return out


# --------------------------------------------------------------------------- #
class StderrWatch:
    """Reads what the process itself (incl. sanitizer runtimes) wrote to fd 2."""

    def __init__(self):
        self.pos = os.fstat(2).st_size
        self.f = open("/proc/self/fd/2", "rb")

    def delta(self):
        size = os.fstat(2).st_size
        if size <= self.pos:
            return ""
        self.f.seek(self.pos)
        data = self.f.read(size - self.pos)
        self.pos = size
        return data.decode("utf-8", "replace")


REPORT = re.compile(r"AddressSanitizer|runtime error:|UndefinedBehaviorSanitizer")
MISALIGNED = re.compile(r"runtime error: (load|store) of misaligned address")


def classify_report(text):
    """(is_kernel_report, signature)"""
    m = re.search(r"ERROR: AddressSanitizer: ([\w-]+)", text)
    kind = m.group(1) if m else ("ubsan" if "runtime error:" in text else "sanitizer")
    rw = re.search(r"\b(READ|WRITE) of size (\d+)", text)
    in_kernel = bool(re.search(r"set_operations|set_\w+_merge", text))
    fn = re.search(r"(set_\w+_merge\w*)", text)
    sig = "%s:%s:%s" % (kind, rw.group(1) if rw else "-", fn.group(1) if fn else "?")
    return in_kernel, sig


def canary(ctx, watch):
    """Positive control: a deliberate 4-byte over-read through libc must produce a
    report that the stderr watch sees (otherwise the ASan shard decides nothing)."""
    if "libclang_rt.asan" not in open("/proc/self/maps").read():
        ctx.inconclusive.append("ASan runtime not loaded in the worker")
        return
    libc = ctypes.CDLL(None)
    libc.malloc.restype = ctypes.c_void_p
    libc.memcpy.argtypes = [ctypes.c_void_p, ctypes.c_void_p, ctypes.c_size_t]
    libc.memcpy.restype = ctypes.c_void_p
    libc.free.argtypes = [ctypes.c_void_p]
    src = libc.malloc(8)
    dst = ctypes.create_string_buffer(32)
    watch.delta()
    libc.memcpy(ctypes.cast(dst, ctypes.c_void_p), src, 12)
    libc.free(src)
    text = watch.delta()
    if "AddressSanitizer" in text:
        ctx.count("asan:canary_detected")
    else:
        ctx.inconclusive.append("ASan canary over-read was not reported/observed")


class Guard:
    """Runs one kernel call under the variant's oracle."""

    def __init__(self, ctx):
        self.ctx = ctx
        self.variant = os.environ.get("CATII_VARIANT")
        self.watch = StderrWatch() if self.variant == "asan" else None
        self.noise = 0
        if self.variant == "asan":
            canary(ctx, self.watch)
        elif self.variant == "bc":
            on, off = (int(x) for x in os.environ.get("CATII_BC_STATS", "0,1").split(","))
            if on > 0 and off == 0:
                ctx.count("bc:checks_on", on)
            else:
                ctx.inconclusive.append("bounds-check transform incomplete: on=%d still_off=%d" % (on, off))

    def call(self, what, fn, args, case, nontrivial, hashkey):
        ctx = self.ctx
        ctx.inflight(case)
        ctx.count("%s:%s" % (self.variant, what))
        ctx.evaluation((self.variant,) + hashkey, nontrivial)
        res = None
        try:
            res = fn(*args)
        except IndexError as e:
            import traceback

            frames = traceback.extract_tb(e.__traceback__)
            in_kernel = any("set_operations" in fr.filename for fr in frames)
            if in_kernel or what != "insitu_calls":
                ctx.violation("bc:IndexError:%s" % case.get("op", what), "bounds-checked build: %s: %s" % (case.get("op"), e), case)
            else:
                ctx.count("insitu_workload_raised(not the kernels)")
        except Exception:
            if what != "insitu_calls":
                raise
            # the in-situ workload is only a driver for the kernels: a failure elsewhere in the
            # library is another property's business
            ctx.count("insitu_workload_raised(not the kernels)")
        if self.watch is not None:
            text = self.watch.delta()
            other_ub = [ln for ln in (text or "").splitlines() if "runtime error:" in ln and not MISALIGNED.search(ln)]
            if text and MISALIGNED.search(text) and not other_ub and not re.search(r"AddressSanitizer", text):
                # an element of a packed record field is inside its array but not 4-byte aligned: UBSan's alignment
                # report says nothing about bounds (C09's matter) - evidence only
                ctx.count("ubsan:misaligned_element_loads(not a bounds matter)")
            elif text and REPORT.search(text):
                in_kernel, sig = classify_report(text)
                if in_kernel:
                    ctx.violation("asan:" + sig, text[:1800], case)
                else:
                    self.noise += 1
                    ctx.count("asan:reports_outside_kernels")
                    ctx.note("sanitizer report outside the kernels: " + text[:300])
        ctx.inflight(None)
        return res


def present(values, label, rng):
    for lab, a in K.presentations(values, rng):
        if lab == label:
            return a
    raise KeyError(label)


def exhaustion_class(sa, sb):
    if not sa or not sb:
        return "empty"
    return "left_first" if max(sa) < max(sb) else ("right_first" if max(sb) < max(sa) else "together")


def run_pair(ctx, g, so, a, b, sa, sb, pl, pr):
    one_empty = (len(a) == 0) != (len(b) == 0)
    if one_empty:
        ctx.count("one_empty_operand_calls")
    ex = exhaustion_class(sa, sb)
    ctx.count("exhaustion:" + ex)
    nt = ex in ("empty", "left_first", "right_first") or "view_in_buffer" in (pl, pr)
    for name, fn in (("intersect", so.set_intersect_merge_np), ("union", so.set_union_merge_np),
                     ("difference", so.set_difference_merge_np)):
        case = {"op": name, "a": a, "b": b, "pl": pl, "pr": pr}
        res = g.call("kernel_calls", fn, (a, b), case, nt, (name, pl, pr, a.tobytes(), b.tobytes()))
        if res is not None:
            exp = sorted(K.OPS[name](sa, sb))
            got = res.tolist() if isinstance(res, numpy.ndarray) else None
            if got != exp:
                ctx.count("wrong_result_seen(C08's business)")
                # the words around / between the elements of a view hold sentinels that occur in neither
                # operand: a sentinel in the output proves a read outside the input arrays (inside the
                # base buffer, where neither red zones nor memoryview bounds checks can see it)
                # (more generally: these kernels only ever copy operand elements, so ANY output value that is in
                # neither operand was read from memory that is not an element of the operands)
                leaked = [v for v in (got or []) if v not in sa and v not in sb]
                if leaked:
                    ctx.violation("read-outside-input:sentinel-in-output:%s:%s/%s" % (name, pl, pr),
                                  "%s returned %r: buffer words that are not elements of the operands were read" % (name, [hex(v) for v in leaked[:3]]), case)


def steps_pair(target, delta, common_last, short_len=3):
    """Operands whose two-pointer merge uses up the short one on exactly step `target + delta` (steps counted as a
    textbook merge does: one per element consumed, a common element consuming both at once): a loop that works
    in blocks of 2^k steps meets its block boundary and the end of an operand at the same moment."""
    steps = target + delta
    p = steps - short_len + (0 if not common_last else 0)
    # long: the even numbers; short: odd numbers 1, 3, ... and a last element just above the p-th even number
    long_ = numpy.arange(0, 2 * (p + 5), 2, dtype=numpy.uint64).astype(U32)
    last = 2 * p if common_last else 2 * p - 1
    short = numpy.array([2 * i + 1 for i in range(short_len - 1)] + [last], dtype=U32)
    return long_, short


# (NumPy's sort-based set routines need 20 s for 2^24 elements; the operands are sorted and unique, so membership
# tests and one insertion say the same)
def _ref_intersect(a, b):
    return a[numpy.isin(a, b)] if len(a) <= len(b) else b[numpy.isin(b, a)]


def _ref_difference(a, b):
    return a[~numpy.isin(a, b)]


def _ref_union(a, b):
    long_, short = (a, b) if len(a) >= len(b) else (b, a)
    extra = short[~numpy.isin(short, long_)]
    return numpy.insert(long_, numpy.searchsorted(long_, extra), extra)


def in_buffer(a, fill):
    big = numpy.full(len(a) + 24, fill, dtype=U32)
    big[7:7 + len(a)] = a
    return big[7:7 + len(a)]


def steps_shard(ctx, g, so, targets):
    for target in targets:
        for delta in (-1, 0, 1):
            for common_last in (False, True):
                long_, short = steps_pair(target, delta, common_last)
                # behind each operand (inside its base buffer) lies a word that IS an element of the other operand:
                # a read one past the end changes the result; the bounds-checked build refuses it outright
                lv, sv = in_buffer(long_, int(short[0])), in_buffer(short, int(long_[-1]))
                for a, b, order in ((lv, sv, "long/short"), (sv, lv, "short/long")):
                    ctx.count("class:operand_used_up_on_step_2^k%+d" % delta)
                    for name, fn, ref in (("intersect", so.set_intersect_merge_np, _ref_intersect),
                                          ("union", so.set_union_merge_np, _ref_union),
                                          ("difference", so.set_difference_merge_np, _ref_difference)):
                        case = {"op": "steps", "kernel": name, "target": target, "delta": delta, "common_last": common_last, "order": order}
                        res = g.call("kernel_calls", fn, (a, b), case, True, ("steps", name, target, delta, common_last, order))
                        if res is None:
                            continue
                        exp = ref(a, b)
                        if len(res) != len(exp) or not numpy.array_equal(res, exp):
                            ctx.count("wrong_result_seen(C08's business)")
                            got = numpy.asarray(res)
                            foreign = got[~numpy.isin(got, a) & ~numpy.isin(got, b)]
                            extra = got[~numpy.isin(got, exp)]
                            if len(foreign) or len(extra):
                                # with these operands the only way to an element that does not belong in the result is the
                                # word behind an operand
                                ctx.violation("read-outside-input:word-behind-operand:%s:%s" % (name, order),
                                              "%s on operands used up on step %d%+d returned %d elements (expected %d), among them %r "
                                              "which can only come from the word behind an operand"
                                              % (name, target, delta, len(got), len(exp), [int(v) for v in (list(foreign) + list(extra))[:3]]), case)
                if ctx.full():
                    return
    ctx.sample({"targets": targets, "note": "operands used up on step 2^k-1, 2^k, 2^k+1 of the merge"})


def judge(ctx, case):
    """Replay one recorded case."""
    import catii.set_operations as so

    g = Guard(ctx)
    if "arrays" in case:
        arrays = [numpy.asarray(x, dtype=U32) for x in case["arrays"]]
        g.call("many_calls", so.set_union_merge_many, (arrays,), case, True, ("many",))
        return
    if "workload" in case:
        insitu(ctx, g, 1, case["workload"])
        return
    if case.get("op") == "threads":
        threads_case(ctx, g, so, case)
        return
    if case.get("op") == "steps":
        steps_shard(ctx, g, so, [case["target"]])
        return
    a = present(numpy.asarray(case["a"], dtype=U32).tolist(), case.get("pl", "own"), ctx.rng)
    b = present(numpy.asarray(case["b"], dtype=U32).tolist(), case.get("pr", "own"), ctx.rng)
    run_pair(ctx, g, so, a, b, set(a.tolist()), set(b.tolist()), case.get("pl", "own"), case.get("pr", "own"))


def threads_case(ctx, g, so, case):
    """Several threads inside the kernels at once, each on its own operands (the cubes call the kernels from a pool)."""
    def work():
        return K.threaded_workload(so, numpy.random.default_rng(case["wseed"]), threads=case["threads"], rounds=12, big=case["big"])

    out = g.call("threads_workloads", work, (), case, True, ("threads", case["wseed"], case["threads"], case["big"]))
    if out is None:
        return
    ctx.count("%s:threads:calls" % g.variant, out["calls"])
    ctx.count("%s:threads:calls_overlapping_another_thread's_call" % g.variant, out["overlapping"])
    for t, name, e in out["errors"]:
        if isinstance(e, IndexError):
            ctx.violation("bc:IndexError:threads:%s" % name, "bounds-checked build, %s while other threads were inside the kernels "
                          "(each thread has its own operands): %s" % (name, e), case)
        else:
            ctx.note("threads workload: %s raised %r (results are C08's matter)" % (name, e))
    if out["stuck_threads"]:
        ctx.inconclusive.append("threads workload: %d threads did not finish" % out["stuck_threads"])


def run_shard(ctx):
    import catii.set_operations as so

    s = ctx.shard
    rng = ctx.rng
    g = Guard(ctx)
    if ctx.inconclusive:
        return
    kind = s["kind"]
    if kind == "exhaustive":
        size = s["size"]
        emb = K.embeddings(size, numpy.random.default_rng([ctx.seed, 9, size]))["extremes" if size >= 4 else "identity"]
        subs = K.subsets(size)
        pl, pr = s["pl"], s["pr"]
        left = [present([emb[i] for i in t], pl, rng) for t in subs]
        right = [present([emb[i] for i in t], pr, rng) for t in subs]
        sets = [set(emb[i] for i in t) for t in subs]
        for i in range(len(subs)):
            for j in range(len(subs)):
                run_pair(ctx, g, so, left[i], right[j], sets[i], sets[j], pl, pr)
            if ctx.full():
                return
        ctx.sample({"variant": s["variant"], "presentation": [pl, pr], "universe": emb,
                    "example": [left[0].tolist(), right[5].tolist()]})
    elif kind == "random":
        for n in range(s["n"]):
            a, b = K.random_pair(rng, maxlen=int(K.pickone(rng, [3, 20, 300])))
            if n % 4 == 1:
                a, b = K.lopsided_pair(rng, long_len=None if n % 8 == 1 else K.pickone(rng, K.LADDER[:9]))
                ctx.count("class:lopsided_ladder")
                if max(len(a), len(b)) > 65536:
                    ctx.count("class:operand>65536")
            elif n % 25 == 7:
                a, b = K.shared_base_views(rng)
            if n % 4 == 3:
                # very unequal lengths (where a search-based shortcut would apply), either order,
                # the short operand reaching beyond / staying below the long one
                long_ = numpy.unique(rng.integers(10, 5000, size=int(rng.integers(40, 400)))).astype(U32)
                short = numpy.unique(rng.integers(0, 6000, size=int(rng.integers(1, 6)))).astype(U32)
                if rng.random() < 0.5:
                    short = numpy.unique(numpy.concatenate([short, long_[-1:] + U32(rng.integers(0, 3))]))
                a, b = (long_, short) if rng.random() < 0.5 else (short, long_)
                ctx.count("class:very_unequal_lengths")
            pl, pr = K.pickone(rng, PRES_PAIRS)
            a2, b2 = present(a.tolist(), pl, rng), present(b.tolist(), pr, rng)
            run_pair(ctx, g, so, a2, b2, set(a.tolist()), set(b.tolist()), pl, pr)
            if ctx.full():
                return
    elif kind == "steps":
        steps_shard(ctx, g, so, s["targets"])
    elif kind == "many":
        top = 2 ** 32 - 1
        for n in range(s["n"]):
            k = int(rng.integers(0, 6))
            arrays = []
            for _ in range(k):
                m = int(rng.integers(0, 7))
                x = numpy.unique(rng.integers(0, K.pickone(rng, [8, 30, 2 ** 32]), size=m, dtype=numpy.uint64)).astype(U32)
                if rng.random() < 0.15:
                    x = numpy.unique(numpy.concatenate([x, numpy.array([top], dtype=U32)]))
                if rng.random() < 0.3 and len(x):
                    x = present(x.tolist(), K.pickone(rng, ["view_in_buffer", "view_in_buffer", "record_field", "record_field_reversed",
                                                            "strided", "reversed"]), rng)
                arrays.append(x)
            case = {"op": "many", "arrays": [x.copy() for x in arrays]}
            nonempty = sum(1 for x in arrays if len(x))
            res = g.call("many_calls", so.set_union_merge_many, (arrays,), case, nonempty != len(arrays) or k == 0,
                         ("many", tuple(x.tobytes() for x in arrays)))
            if isinstance(res, numpy.ndarray):
                allowed = set()
                for x in arrays:
                    allowed.update(x.tolist())
                foreign = [v for v in res.tolist() if v not in allowed]
                if foreign:
                    ctx.violation("read-outside-input:foreign-value-in-output:many",
                                  "set_union_merge_many returned %r, which occur in none of its operands: memory that is not an "
                                  "element of the operands was read" % [hex(v) for v in foreign[:3]], case)
            if n == 2:
                ctx.sample({"variant": s["variant"], "multiway": [x.tolist() for x in arrays]})
            if ctx.full():
                return
    elif kind == "insitu":
        insitu(ctx, g, s["n"])
    elif kind == "threads":
        for n in range(s["n"]):
            case = {"op": "threads", "wseed": int(rng.integers(0, 2 ** 31)), "threads": int(K.pickone(rng, [4, 8])),
                    "big": int(K.pickone(rng, [40000, 150000]))}
            threads_case(ctx, g, so, case)
            if ctx.full():
                return
    if g.noise:
        ctx.extra["asan_reports_outside_kernels"] = g.noise


def insitu(ctx, g, n, replay_workload=None):
    """Real cube walks and entry-wise set updates on the instrumented build."""
    import catii
    from .. import gen

    rng = ctx.rng
    for i in range(n):
        wl = replay_workload or {
            "cube": gen.cube_case(rng, min_dims=2, max_dims=4, max_axes=2, n=gen.pick(rng, [0, 1, 8, 20, 60])),
            "upd_seed": int(rng.integers(0, 2 ** 31))}
        case = {"op": "insitu", "workload": wl}
        dims = gen.cube_dims(wl["cube"])

        def work():
            catii.ccube(dims, interacting_shape=wl["cube"]["shape"]).count()
            r2 = numpy.random.default_rng(wl["upd_seed"])
            a, b = dims[0].copy(), dims[-1].copy()
            # include empty arrays among the operands of the entry-wise updates
            other = {k: (v if r2.random() < 0.7 else v[:0]) for k, v in dict.items(b)}
            [a.union_update, a.intersection_update, a.difference_update][int(r2.integers(0, 3))](other)

        g.call("insitu_calls", work, (), case, True, ("insitu", i, ctx.shard_index))
        if ctx.full():
            return
