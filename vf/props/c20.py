"""C20 - an interrupt raised at any cancellation point stops the cube cleanly.

Oracle: the event log of callback invocations and the outcome of calculate,
for every singleton fault plan (exhaustive over cancellation points) in serial
mode, under the real ThreadPool and under the controlled scheduler, plus
sampled multi-element plans in pooled mode; then a fault-free calculate on the
same cube and aggregate objects must equal a fresh evaluation bit for bit."""
import gc
import threading
import time

import numpy

from .. import detsched, gen, pooled
from ..util import case_hash

META = {
    "level": "fault_enumeration",
    "rule": ("cubes with k in {1,2,3,4,6,8,12,24} sub-cubes, both cube types, one or all aggregates; fault plan S = set of "
             "callback invocation indices at which a fresh exception instance is raised: S = {} and EVERY singleton {i}, "
             "i < k, in serial mode, under the real ThreadPool and under the controlled scheduler (k >= 3), plus sampled "
             "multi-element S in pooled mode; evaluations = (cube, mode, plan) executions. Non-trivial: the plan raises at "
             "an invocation other than the first on a cube with >=2 sub-cubes; distinct by (case hash, mode, plan)"),
    "require": {t: ["mode:serial", "mode:real", "mode:controlled", "plan:empty", "plan:singleton", "plan:multi",
                    "k=1", "k>=12", "cube:ccube", "cube:xcube", "followup:compared", "raised:identity_checked",
                    "interrupt_class:RuntimeError", "interrupt_class:TimeoutError", "interrupt_class:KeyError", "interrupt_class:StopIteration",
                    "k>1024", "callback:class_level", "callback:callable_object_empty_container", "callback:bound_method", "followup:pooled", "cube:shallow_copy_of_the_configured_cube"]
                for t in ("quick", "thorough")},
    "exhaustive": {t: "every singleton fault plan (every cancellation point) of every generated cube, in each mode"
                   for t in ("quick", "thorough")},
    "assumptions": ["the callback raises Exception subclasses - seven families incl. StopIteration, which a pool's map() would take for the end of its "
                    "input (a worker-killing BaseException such as KeyboardInterrupt is a hazard of ThreadPool itself)",
                    "tasks still running in pool threads after calculate has raised are counted as evidence only; the "
                    "verdict is on the outcome, the consultation counts and the follow-up evaluation"],
}
META["rule"] += '; round 7: callbacks that do not raise return None, True, False, 0, 1 or a string in turn (a return value is not a request to stop)'

KS = [1, 2, 3, 4, 6, 8, 12, 24]
BIG_KS = [1056, 1296]      # 32*33, 36*36: more sub-cubes than any chunking constant one would pick


def shards(tier):
    if tier == "quick":
        return [{"label": "cubes%d" % i, "n": 4, "timeout_s": 900} for i in range(12)] + \
               [{"label": "big%d" % i, "n": 1, "big": True, "timeout_s": 900} for i in range(2)]
    return [{"label": "cubes%d" % i, "n": 70} for i in range(15)] + [{"label": "big%d" % i, "n": 6, "big": True} for i in range(2)]


class Interrupt(Exception):
    pass


class InterruptRuntime(Interrupt, RuntimeError):
    pass


class InterruptTimeout(Interrupt, TimeoutError):       # an OSError
    pass


class InterruptKey(Interrupt, KeyError):
    pass


class InterruptValue(Interrupt, ValueError):
    pass


class InterruptArith(Interrupt, ZeroDivisionError):
    pass


class InterruptStop(Interrupt, StopIteration):
    """What a callback built on next(iterator) raises when its budget of sub-cubes runs out; inside
    multiprocessing's map() a StopIteration from the mapped function is taken for the end of the input."""


INTERRUPT_CLASSES = [Interrupt, InterruptRuntime, InterruptTimeout, InterruptKey, InterruptValue, InterruptArith, InterruptStop]


def cube_with_k(rng, kind, k):
    """Extra-axis extents whose product is k."""
    factor = {1: [[]], 2: [[2]], 3: [[3]], 4: [[4], [2, 2]], 6: [[6], [2, 3], [3, 2]], 8: [[2, 4], [2, 2, 2], [8]],
              12: [[3, 4], [2, 6], [2, 2, 3]], 24: [[4, 6], [2, 3, 4], [2, 12]], 1056: [[32, 33]], 1296: [[36, 36]]}[k]
    extras = list(gen.pick(rng, factor))
    n = gen.pick(rng, [3, 6, 12]) if k <= 24 else 2
    # distribute the extra axes over 1-3 dimensions (<= 2 extra axes per dimension)
    ndims = max((len(extras) + 1) // 2, 1, min(3, int(rng.integers(1, 4))))
    per_dim = [[] for _ in range(ndims)]
    for e in extras:
        cand = [d for d in per_dim if len(d) < 2]
        gen.pick(rng, cand).append(e)
    dense, commons, extents = [], [], []
    for ex in per_dim:
        ext = int(rng.integers(1, 4))
        a = gen.draw_values(rng, n * int(numpy.prod(ex or [1])), list(range(ext)), "uniform").astype(numpy.int64)
        dense.append(a.reshape((n,) + tuple(ex)))
        commons.append(int(rng.integers(0, ext)))
        extents.append(ext)
    from .. import aggr

    names = aggr.SHARED if kind == "ccube" else aggr.SHARED + aggr.XONLY
    aggs = list(names) if (rng.random() < 0.3 and k <= 24) else [gen.pick(rng, names if k <= 24 else ["count", "sum"])]
    return {"dense": dense, "commons": commons, "shape": tuple(extents), "extents": extents, "n": n, "kind": kind,
            "aggs": aggs, "subcubes": k,
            "inputs": [aggr.agg_inputs(rng, n) if a in aggr.SHARED else aggr.xonly_inputs(rng, n, a) for a in aggs]}


def cases(ctx):
    rng = ctx.rng
    if ctx.shard.get("big"):
        for i in range(ctx.shard["n"]):
            c = cube_with_k(rng, "ccube" if (i + ctx.shard_index) % 2 == 0 else "xcube", BIG_KS[i % 2])
            c["pseed"] = int(rng.integers(0, 2 ** 30))
            c["big"] = True
            yield c
        return
    for i in range(ctx.shard["n"]):
        k = KS[(i + ctx.shard_index) % len(KS)]
        kind = "ccube" if (i + ctx.shard_index // len(KS)) % 2 == 0 else "xcube"
        c = cube_with_k(rng, kind, k)
        c["pseed"] = int(rng.integers(0, 2 ** 30))
        yield c


RETURNS = [None, True, False, 0, 1, "go on", None, True]
CALLBACK_FORMS = ["function", "bound_method", "function", "class_level", "callable_object_empty_container", "partial",
                  "function", "class_level"]


def _call(fn):
    return fn()


class _Holder:
    def __init__(self, fn):
        self.fn = fn

    def poll(self):
        return self.fn()


class _CallableList(list):
    def __init__(self, fn):
        super().__init__()
        self.fn = fn

    def __call__(self):
        return self.fn()


def run_plan(ctx, case, mode, plan, seed, fresh_ref, feat):
    """Execute one fault plan; returns False when a violation was reported."""
    k = case["subcubes"]
    cube = pooled.build_cube(case)
    funcs = pooled.make_funcs(case)
    cube.parallel = mode != "serial"
    cube.poolsize = [1, 2, 3, 4, 8][seed % 5]
    lock = threading.Lock()
    calls = []
    raised = []

    def callback():
        with lock:
            i = len(calls)
            calls.append(threading.get_ident())
        if i in plan:
            cls = INTERRUPT_CLASSES[(seed + i) % len(INTERRUPT_CLASSES)]
            ctx.count("interrupt_class:" + cls.__mro__[2].__name__ if cls is not Interrupt else "interrupt_class:Exception")
            e = cls("interrupt at invocation %d" % i)
            with lock:
                raised.append(e)
            raise e
        # what a callback that does not raise returns is nobody's business (event.is_set, a progress counter ...)
        return RETURNS[(seed + i) % len(RETURNS)]

    form = CALLBACK_FORMS[seed % len(CALLBACK_FORMS)]
    ctx.count("callback:" + form)
    if form == "class_level":
        # the callback is supplied at class level (a subclass), not on the instance
        sub = type("Sub" + type(cube).__name__, (type(cube),), {"check_interrupt": staticmethod(callback)})
        cube.__class__ = sub
    elif form == "bound_method":
        cube.check_interrupt = _Holder(callback).poll
    elif form == "partial":
        import functools

        cube.check_interrupt = functools.partial(_call, callback)
    elif form == "callable_object_empty_container":
        # a callable object that is also an (empty, hence falsy) container - e.g. a recording list with __call__
        cube.check_interrupt = _CallableList(callback)
    else:
        cube.check_interrupt = callback
    if form != "class_level" and seed % 5 == 2:
        # the configured cube is duplicated (copy.copy / a pickle-free deepcopy of the shell) and the duplicate is evaluated
        import copy

        cube = copy.copy(cube)
        ctx.count("cube:shallow_copy_of_the_configured_cube")
    base_threads = threading.active_count()
    factory = None
    if mode == "controlled":
        codes = detsched.catii_codes()
        strat = [("uniform", 0.05), ("pct", 2), ("uniform", 0.3)][seed % 3]
        factory = lambda: detsched.DetSched(seed, strat, codes, expected_events=5000)
    outcome = None
    exc = None
    try:
        with detsched.pooled(cube, factory):
            cube.calculate(funcs)
        outcome = "returned"
    except detsched.Watchdog:
        ctx.inconclusive.append("controlled schedule watchdog in C20")
        return False
    except Interrupt as e:
        outcome, exc = "raised", e
    except Exception as e:
        outcome, exc = "raised-other", e
    ncalls_at_return = len(calls)
    ctx.count("mode:" + mode)
    ctx.count("plan:" + ("empty" if not plan else ("singleton" if len(plan) == 1 else "multi")))
    nt = k >= 2 and any(i > 0 for i in plan)
    ctx.evaluation(feat[1] + mode + repr(sorted(plan)), nt)
    c2 = dict(case, only_mode=mode, only_plan=sorted(plan), only_seed=seed)
    key = "%s:%s:%s" % (mode, case["kind"], "k=%d" % k)
    if mode == "controlled" and not detsched.DetPool.runs:
        ctx.count("controlled:substitute_pool_not_used")
    if plan:
        if outcome == "returned":
            ctx.violation("interrupt-swallowed:" + key, "the callback raised at invocation(s) %r but calculate returned normally"
                          % sorted(plan), c2)
            return False
        ctx.count("raised:identity_checked")
        if outcome != "raised" or not any(exc is e for e in raised):
            ctx.violation("wrong-exception:" + key, "calculate raised %r, which is not one of the exceptions the callback raised (%r)"
                          % (exc, raised), c2)
            return False
    else:
        if outcome != "returned":
            ctx.violation("spurious-exception:" + key, "no interrupt was raised but calculate raised %r" % (exc,), c2)
            return False
        if ncalls_at_return != k:
            ctx.violation("consultations:" + key, "with no interrupt the callback was consulted %d times for %d sub-cubes"
                          % (ncalls_at_return, k), c2)
            return False
    if mode == "serial" and plan and ncalls_at_return != min(plan) + 1:
        ctx.violation("serial-did-not-stop:" + key, "serial evaluation consulted the callback %d times although it raised at invocation %d"
                      % (ncalls_at_return, min(plan)), c2)
        return False
    # let pool threads of the interrupted call finish (evidence only)
    if exc is not None:
        exc.__traceback__ = None
    del exc
    if mode == "real":
        gc.collect()
        t0 = time.time()
        while threading.active_count() > base_threads and time.time() - t0 < 5:
            time.sleep(0.002)
        if threading.active_count() > base_threads:
            ctx.count("evidence:pool_threads_alive_after_grace")
        late = len(calls) - ncalls_at_return
        if late:
            ctx.count("evidence:callback_invocations_after_calculate_raised", late)
    if len(calls) > k:
        ctx.violation("consulted-more-than-once-per-subcube:" + key,
                      "%d callback invocations for %d sub-cubes" % (len(calls), k), c2)
        return False
    # a following fault-free calculate on the same objects equals a fresh evaluation
    quiesced = threading.active_count() <= base_threads
    calls2 = []
    if form == "class_level":
        # (the subclass that was made for this very cube, never the library's class)
        type(cube).check_interrupt = staticmethod(lambda: calls2.append(1))
    else:
        cube.check_interrupt = lambda: calls2.append(1)
    # the follow-up runs serially, or - every second time after a pooled run - with the real pool again
    follow_pooled = mode != "serial" and seed % 2 == 0
    cube.parallel = follow_pooled
    got = pooled.result_bytes(cube.calculate(funcs))
    ctx.count("followup:compared")
    ctx.count("followup:pooled" if follow_pooled else "followup:serial")
    if got != fresh_ref:
        ctx.violation("followup-differs:" + key,
                      "after the interrupted call (plan %r) a fault-free calculate on the same cube and aggregate objects differs "
                      "from a fresh evaluation" % sorted(plan), c2)
        return False
    if quiesced and len(calls2) != k:
        ctx.violation("followup-consultations:" + key, "follow-up evaluation consulted the callback %d times for %d sub-cubes"
                      % (len(calls2), k), c2)
        return False
    return True


def judge(ctx, case):
    k = case["subcubes"]
    kind = case["kind"]
    ctx.count("cube:" + kind)
    ctx.count("k=1" if k == 1 else ("k>=12" if k >= 12 else "k=2..8"))
    fresh = pooled.build_cube(case)
    fresh.parallel = False
    fresh_ref = pooled.result_bytes(fresh.calculate(pooled.make_funcs(case)))
    h = case_hash({x: case[x] for x in ("dense", "commons", "aggs", "inputs", "kind")})
    feat = ("%s:k=%d" % (kind, k), h)
    rng = numpy.random.default_rng(case["pseed"])
    modes = ["serial"] + (["real", "controlled"] if k >= 3 else [])
    if "only_mode" in case:
        return run_plan(ctx, case, case["only_mode"], set(case["only_plan"]), int(case["only_seed"]), fresh_ref, feat)
    if case.get("big"):
        # more than 1024 sub-cubes: sampled cancellation points (first, last, around 256/1024, random), real pool and serial
        ctx.count("k>1024")
        for mode in ("real", "serial", "controlled"):
            pts = [0, 1, 255, 256, 1023, 1024, k - 1] + [int(x) for x in rng.integers(0, k, size=2)]
            plans = [set()] + [{p} for p in (pts if mode != "controlled" else pts[:3])] + [{3, 700, k - 2}]
            for j, plan in enumerate(plans):
                if not run_plan(ctx, case, mode, plan, case["pseed"] + 4 * j, fresh_ref, feat):
                    return
        return
    for mode in modes:
        plans = [set()] + [{i} for i in range(k)]
        if mode != "serial":
            for _ in range(3):
                size = int(rng.integers(2, min(k, 5) + 1))
                plans.append(set(int(x) for x in rng.choice(k, size=size, replace=False)))
        for j, plan in enumerate(plans):
            if not run_plan(ctx, case, mode, plan, case["pseed"] + j, fresh_ref, feat):
                return
    if len(ctx.samples) < 4:
        ctx.sample({"kind": kind, "subcubes": k, "aggs": case["aggs"], "modes": modes,
                    "plans_per_mode": k + 1, "dense_shapes": [list(numpy.asarray(d).shape) for d in case["dense"]]})
