"""C16 - pooled evaluation is schedule-independent.

Oracle: the serial run of twin objects (bit-for-bit), and a write-set monitor
(the region views handed to different tasks must be disjoint views of the
call's own regions).  Two regimes: a deterministic seeded scheduler that
interleaves the worker tasks at catii-bytecode granularity, and the real
ThreadPool under a microsecond switch interval."""
import sys

import numpy

from .. import detsched, gen, pooled
from ..util import case_hash

META = {
    "level": "exploration",
    "rule": ("cubes with 3-24 sub-cubes (two/three multi-axis dimensions), both cube types, each aggregate alone or all "
             "together (4 for ccube, 10 for xcube), pool sizes 1-16; regime 1: seeded deterministic schedules (uniform "
             "switch probability 0.01/0.05/0.3, PCT depth 1-3) at catii-bytecode granularity; regime 2: real ThreadPool with "
             "switch interval 1e-6 on 10^4-row cubes. evaluations = pooled calculate runs compared with the serial run. "
             "Non-trivial: >=3 sub-cubes, >=2 workers that each ran a task and >=1 context switch inside catii code "
             "(controlled) / >=2 worker threads seen (real); distinct by (case hash, schedule hash)"),
    "require": {t: ["pooled:runs", "real:runs",
                    "real:multi_thread_runs", "cube:ccube", "cube:xcube", "aggs:all_together", "writeset:pairs_checked",
                    "strategy:pct", "strategy:uniform", "class:more_than_256_subcubes"] for t in ("quick", "thorough")},
    "assumptions": ["the controlled scheduler serialises whole kernel/NumPy calls (yield points are catii bytecodes); true "
                    "overlap inside nogil kernels is only stressed by the real-thread regime",
                    "diagnostic counters (intersection_data_points, tracing) are excluded by the property"],
}
META["rule"] += '; round 7: one cube object evaluated pooled, its data edited in place (same shapes, common values, entry counts), evaluated pooled again and compared with the serial evaluation of the data as they are now'
for _t in META["require"]:
    META["require"][_t] = list(META["require"][_t]) + ['edited_between:pooled_again_on_the_same_cube_object']

STRATEGIES = [("uniform", 0.01), ("uniform", 0.05), ("uniform", 0.3), ("pct", 1), ("pct", 2), ("pct", 3)]


def shards(tier):
    if tier == "quick":
        return [{"label": "ctl%d" % i, "kind": "controlled", "n": 10, "schedules": 8, "timeout_s": 900} for i in range(10)] + \
               [{"label": "real%d" % i, "kind": "real", "n": 40, "timeout_s": 900} for i in range(4)] + \
               [{"label": "many%d" % i, "kind": "controlled", "many": True, "n": 3, "schedules": 3, "timeout_s": 900} for i in range(2)]
    return [{"label": "ctl%d" % i, "kind": "controlled", "n": 200, "schedules": 30} for i in range(13)] + \
           [{"label": "real%d" % i, "kind": "real", "n": 2500} for i in range(3)] + \
           [{"label": "many%d" % i, "kind": "controlled", "many": True, "n": 60, "schedules": 12} for i in range(2)]


def serial_reference(case):
    cube = pooled.build_cube(case)
    cube.parallel = False
    return pooled.result_bytes(cube.calculate(pooled.make_funcs(case)))


def run_pooled(ctx, case, factory, poolsize, label):
    """One pooled calculate with proxies; returns (result bytes or None, recorder)."""
    cube = pooled.build_cube(case)
    cube.parallel = True
    cube.poolsize = poolsize
    rec = pooled.Recorder()
    funcs = [pooled.FuncProxy(f, rec, i) for i, f in enumerate(pooled.make_funcs(case))]
    threads = set()
    cube.check_interrupt = lambda: threads.add(__import__("threading").get_ident())
    with detsched.pooled(cube, factory):
        res = cube.calculate(funcs)
    rec.closed = True
    return pooled.result_bytes(res), rec, funcs, threads


def judge(ctx, case):
    kind = case["kind"]
    regime = case["regime"]
    ctx.count("cube:" + kind)
    if len(case["aggs"]) > 1:
        ctx.count("aggs:all_together")
    ref = serial_reference(case)
    h = case_hash({k: case[k] for k in ("dense", "commons", "shape", "aggs", "inputs", "kind")})
    feat = "%s:%s" % (kind, "all" if len(case["aggs"]) > 1 else case["aggs"][0])
    if regime == "controlled":
        codes = detsched.catii_codes()
        expected = [20000]
        if "sseed_single" in case:   # replay of one recorded schedule
            plan = [(tuple(case["strategy"]), int(case["sseed_single"]), int(case["poolsize"]))]
        else:
            strategies = [("uniform", 0.002), ("uniform", 0.02), ("pct", 2), ("pct", 3)] if case["subcubes"] > 100 else STRATEGIES
            plan = [(strategies[(case["sseed"] + s) % len(strategies)], case["sseed"] * 1000 + s,
                     case["poolsizes"][s % len(case["poolsizes"])]) for s in range(case["schedules"])]
        for strat, seed, poolsize in plan:

            def factory(seed=seed, strat=strat):
                return detsched.DetSched(seed, strat, codes, expected_events=expected[0])

            try:
                got, rec, funcs, threads = run_pooled(ctx, case, factory, poolsize, "controlled")
            except detsched.Watchdog:
                ctx.inconclusive.append("controlled schedule watchdog (seed %d)" % seed)
                return
            runs = detsched.DetPool.runs
            if not runs:
                # the cube did not go through a pool API the scheduler can stand in for: the comparison
                # with the serial run still holds, under whatever threads the cube used
                ctx.count("controlled:substitute_pool_not_used")
                ctx.count("pooled:runs")
                ctx.evaluation(h + "nosub%d:%d" % (seed, poolsize), False)
                if got != ref:
                    ctx.violation("pooled-differs-from-serial:real:" + feat,
                                  "pooled result (pool size %d) is not bit-identical to the serial run" % poolsize, case)
                    return
                continue
            r = runs[-1]
            expected[0] = max(1000, r["events"])
            ctx.count("controlled:runs")
            ctx.count("pooled:runs")
            ctx.count("controlled:events", r["events"])
            ctx.count("controlled:switches", r["switches"])
            ctx.count("strategy:" + strat[0])
            multi = r["workers_with_tasks"] >= 2
            if multi:
                ctx.count("controlled:multi_worker_runs")
            ctx.evaluation(h + r["schedule"] + str(poolsize), case["subcubes"] >= 3 and multi and r["switches"] >= 1)
            ctx.extra.setdefault("distinct_schedules", [])
            if len(ctx.extra["distinct_schedules"]) < 40:
                ctx.extra["distinct_schedules"].append(r["schedule"])
            c2 = dict(case, schedules=1, sseed_single=seed, strategy=list(strat), poolsize=poolsize)
            if got != ref:
                ctx.violation("pooled-differs-from-serial:controlled:" + feat,
                              "pooled result (strategy %r, seed %d, pool size %d, %d switches) is not bit-identical to the serial run"
                              % (strat, seed, poolsize, r["switches"]), c2)
                return
            problem, pairs = pooled.check_write_sets(rec, funcs)
            ctx.count("writeset:pairs_checked", pairs)
            if problem:
                ctx.violation("write-set:controlled:" + feat, problem, c2)
                return
    else:
        old = sys.getswitchinterval()
        sys.setswitchinterval(1e-6)
        try:
            for rep in range(case["reps"]):
                poolsize = case["poolsizes"][rep % len(case["poolsizes"])]
                got, rec, funcs, threads = run_pooled(ctx, case, None, poolsize, "real")
                ctx.count("real:runs")
                ctx.count("pooled:runs")
                if len(threads) >= 2:
                    ctx.count("real:multi_thread_runs")
                ctx.evaluation(h + "real%d:%d" % (rep, poolsize), case["subcubes"] >= 3 and len(threads) >= 2)
                if got != ref:
                    ctx.violation("pooled-differs-from-serial:real:" + feat,
                                  "pooled result under the real ThreadPool (pool size %d) is not bit-identical to the serial run" % poolsize, case)
                    return
                problem, pairs = pooled.check_write_sets(rec, funcs)
                ctx.count("writeset:pairs_checked", pairs)
                if problem:
                    ctx.violation("write-set:real:" + feat, problem, case)
                    return
        finally:
            sys.setswitchinterval(old)
    if not edited_between_pooled_runs(ctx, case, feat, h):
        return
    if ctx.evals % 97 < 9 and len(ctx.samples) < 4:
        ctx.sample({"kind": kind, "aggs": case["aggs"], "subcubes": case["subcubes"], "regime": regime,
                    "dense_shapes": [list(numpy.asarray(d).shape) for d in case["dense"]], "poolsizes": case["poolsizes"]})


def edited_between_pooled_runs(ctx, case, feat, h):
    """ONE cube object evaluated pooled, its data edited in place (same shapes, same common values, same number of
    entries), evaluated pooled again: the second result is the serial result over the data as they are now."""
    import catii

    cube = pooled.build_cube(case)
    cube.parallel = True
    cube.poolsize = case["poolsizes"][0]
    cube.calculate(pooled.make_funcs(case))
    rng = numpy.random.default_rng(case.get("sseed", 0) + 77)
    edited = False
    if case["kind"] == "ccube":
        order = sorted(range(len(cube.dims)), key=lambda i: -len(cube.dims[i].shape))
        for di in order:
            x = cube.dims[di]
            keys = [k for k in x if len(x[k]) >= 2]
            for k in keys:
                others = [q for q in x if q[1:] == k[1:] and q[0] != k[0] and len(x[q])]
                if others:
                    q = others[int(rng.integers(0, len(others)))]
                    moved = numpy.array(x[k][: max(1, len(x[k]) // 2)], dtype=numpy.uint32)
                    before = (len(x), x.common, x.shape)
                    x.update({q: moved})
                    edited = (len(x), x.common, x.shape) == before
                    break
            if edited:
                break
        if not edited:
            ctx.count("edited_between:no_suitable_entry")
            return True
        fresh = catii.ccube([d.copy() for d in cube.dims], interacting_shape=tuple(case["shape"]))
    else:
        for a in cube.dims:
            a = numpy.asarray(a)
            if a.size >= 2:
                flat = a.reshape(-1)
                i, j = int(rng.integers(0, a.size)), int(rng.integers(0, a.size))
                vals = numpy.unique(flat)
                flat[i] = vals[int(rng.integers(0, len(vals)))]
                flat[j] = vals[int(rng.integers(0, len(vals)))]
                flat[: max(1, a.size // 3)] = flat[: max(1, a.size // 3)][::-1].copy()
                edited = True
        if not edited:
            return True
        fresh = catii.xcube([numpy.array(a, copy=True) for a in cube.dims], interacting_shape=tuple(case["shape"]))
    fresh.parallel = False
    want = pooled.result_bytes(fresh.calculate(pooled.make_funcs(case)))
    got = pooled.result_bytes(cube.calculate(pooled.make_funcs(case)))
    ctx.count("edited_between:pooled_again_on_the_same_cube_object")
    ctx.count("pooled:runs")
    ctx.evaluation(h + "edited-between", case["subcubes"] >= 3)
    if got != want:
        ctx.violation("pooled-differs-from-serial:after-in-place-edit:" + feat,
                      "the same cube object, evaluated pooled before and after an in-place edit of its data (same shapes, common "
                      "values and entry counts), returns something else than the serial evaluation of the data as they are now", case)
        return False
    return True


def many_subcubes_case(rng, kind):
    """More than 256 sub-cubes (17 x 16) over a handful of rows."""
    from .c20 import cube_with_k
    from .. import aggr

    n = 3
    ex = [[17], [16]]
    dense = [gen.draw_values(rng, n * e[0], [0, 1, 2], "uniform").astype(numpy.int64).reshape(n, e[0]) for e in ex]
    names = aggr.SHARED if kind == "ccube" else ["count", "sum", "mean", "max", "quantile"]
    aggs = [gen.pick(rng, names) for _ in range(2)]
    return {"dense": dense, "commons": [0, 1], "shape": (3, 3), "extents": [3, 3], "n": n, "kind": kind, "aggs": aggs,
            "subcubes": 272,
            "inputs": [aggr.agg_inputs(rng, n) if a in aggr.SHARED else aggr.xonly_inputs(rng, n, a) for a in aggs]}


def cases(ctx):
    rng = ctx.rng
    s = ctx.shard
    if s.get("many"):
        for i in range(s["n"]):
            c = many_subcubes_case(rng, "ccube" if i % 2 else "xcube")
            c["regime"] = "controlled" if i % 4 < 3 else "real"
            c["schedules"] = s["schedules"]
            c["reps"] = 3
            c["sseed"] = int(rng.integers(0, 2 ** 20))
            c["poolsizes"] = [int(x) for x in rng.choice([2, 3, 4, 8, 16], size=3)]
            ctx.count("class:more_than_256_subcubes")
            yield c
        return
    for i in range(s["n"]):
        kind = "ccube" if i % 2 == 0 else "xcube"
        if s["kind"] == "controlled":
            c = pooled.pooled_case(rng, kind)
            c["regime"] = "controlled"
            c["schedules"] = s["schedules"]
        else:
            c = pooled.pooled_case(rng, kind, n=gen.pick(rng, [2000, 10000]))
            c["regime"] = "real"
            c["reps"] = 3
        c["sseed"] = int(rng.integers(0, 2 ** 20))
        c["poolsizes"] = [int(x) for x in rng.choice([1, 2, 3, 4, 8, 16], size=3)]
        yield c
