"""C12 - a torn INDX file is always rejected.

Oracle: "raised / returned".  Every byte prefix F[:k], 0 <= k < len(F), of every
generated file is loaded (the file is written once and truncated downwards).
A syscall-trace monitor (strace) confirms that the writer only ever appends, the
observation that makes "byte prefix" the complete set of torn states; a kill
experiment SIGKILLs a saving subprocess at seeded delays and loads whatever is
on disk."""
import os
import re
import signal
import subprocess
import sys
import tempfile
import time

import numpy

from .. import gen, indx, PYTHON

U32 = numpy.uint32

META = {
    "level": "fault_enumeration",
    "rule": ("files from C10's generator capped at ~4 KB (quick: 1120 files, thorough: 15400); for each file EVERY cut "
             "point k in [0, len) is loaded through the real IndxIO.load on a real (truncated) file; evaluations = "
             "(file, cut point) pairs. Non-trivial: cut inside the payload (k >= 16); distinct by (file hash, k). "
             "Plus: strace write-trace check (all writes append) and SIGKILL experiment (thorough: 100 kills)."),
    "require": {"quick": ["files", "cuts_in_header", "cuts_in_payload", "cut=len-1", "complete_file_loads",
                          "trace:writes_checked", "files_near_page_boundary", "files_over_1MiB", "open_mode:rb", "open_mode:r+b"],
                "thorough": ["files", "cuts_in_header", "cuts_in_payload", "cut=len-1", "complete_file_loads",
                             "trace:writes_checked", "kill:runs", "kill:torn_in_payload_rejected"]},
    "exhaustive": {"quick": "every cut point of every generated file", "thorough": "every cut point of every generated file"},
    "assumptions": ["crash model: the surviving file is a byte prefix of the complete file (confirmed per run by the "
                    "write-trace monitor: every write starts at the current end of file)",
                    "block-reordering torn writes (power loss) are outside the property's own crash model"],
}
META["rule"] += '; round 7: one shard of cuts runs the loader under python -O (PYTHONOPTIMIZE=1, confirmed through sys.flags.optimize)'
for _t in META["require"]:
    META["require"][_t] = list(META["require"][_t]) + ['class:loader_run_with_python_-O']


def shards(tier):
    if tier == "quick":
        return [{"label": "cuts%d" % i, "kind": "cuts", "n": 80} for i in range(14)] + \
               [{"label": "trace", "kind": "trace", "n": 3},
                # the same sweep with the interpreter's -O switch (assert statements are not executed)
                {"label": "cuts-O", "kind": "cuts", "n": 60, "env": {"PYTHONOPTIMIZE": "1"}, "optimized": True}]
    return [{"label": "cuts%d" % i, "kind": "cuts", "n": 1100} for i in range(14)] + \
           [{"label": "trace", "kind": "trace", "n": 25}, {"label": "kill", "kind": "kill", "n": 100, "timeout_s": 3000},
            {"label": "cuts-O", "kind": "cuts", "n": 600, "env": {"PYTHONOPTIMIZE": "1"}, "optimized": True}]


def page_boundary_case(rng):
    """One file whose length lands on / next to a multiple of the 4096-byte page (the loader maps the file)."""
    target = int(gen.pick(rng, [4096, 8192])) + int(rng.integers(-3, 4))
    arity = int(rng.integers(1, 3))
    # header 16 + 1 + 4 + 1 + iw(1) + entries*arity*iw + 1 + entries*4 + 4*rowids, with one-byte index words
    n_ent = int(rng.integers(1, 4))
    fixed = 16 + 1 + 4 + 1 + 1 + n_ent * arity + 1 + n_ent * 4
    total = max(n_ent, (target - fixed) // 4)
    lens = [total // n_ent] * n_ent
    lens[0] += total - sum(lens)
    entries = []
    for i, ln in enumerate(lens):
        entries.append((tuple([i] + [int(rng.integers(0, 200)) for _ in range(arity - 1)]), indx.rowids(rng, ln, top=5 * ln + 7, extremes=False)))
    return {"arity": arity, "entries": entries, "common": int(rng.integers(0, 200)), "page_boundary": True}


def small_case(rng):
    while True:
        c = indx.indx_case(rng, small=rng.random() < 0.5, max_entries=40)
        total = sum(len(v) for _, v in c["entries"])
        if total * 4 + len(c["entries"]) * (8 * c["arity"] + 4) < 6000:
            return c


def load_path(path, mode="rb"):
    from catii.indxio import IndxIO

    with open(path, mode) as f:
        res = IndxIO.load(f)
    return res


def big_file_case(rng):
    """A file of more than 1 MiB whose length is not a multiple of the 4096-byte block."""
    n_ent = int(rng.integers(2, 6))
    total = (1 << 20) // 4 + int(rng.integers(2000, 60000))
    lens = [total // n_ent] * n_ent
    lens[0] += 3
    entries = [((i, i + 1), (numpy.arange(ln, dtype=U32) * 3 + i)) for i, ln in enumerate(lens)]
    return {"arity": 2, "entries": entries, "common": 9, "big_file": True}


def judge(ctx, case):
    """One file: all cut points."""
    ent = indx.entries_dict(case)
    fd, p = tempfile.mkstemp(prefix="vf-torn-", dir=indx.TMPDIR)
    os.close(fd)
    try:
        from catii.indxio import IndxIO

        with open(p, "wb") as f:
            IndxIO.save(f, ent, int(case["common"]), numpy.dtype(U32))
        size = os.path.getsize(p)
        ctx.count("files")
        if case.get("page_boundary"):
            ctx.count("files_near_page_boundary")
        h = "%s" % (hash(open(p, "rb").read()) & 0xFFFFFFFFFFFF)
        # the complete file must load (else the rejections below mean nothing)
        try:
            r = load_path(p)
            del r
            ctx.count("complete_file_loads")
        except Exception as e:
            ctx.violation("complete-file-rejected", "the complete file does not load: %r" % (e,), case)
            return
        ks = range(size - 1, -1, -1)
        if case.get("big_file"):
            # a big file: the last 9000 cut points, the header, and a sample in between
            ctx.count("files_over_1MiB")
            declared = 16 + int.from_bytes(open(p, "rb").read(16)[8:16], "little")
            if size != declared:
                ctx.violation("file-longer-than-declared", "the saved file has %d bytes but its header declares %d: the bytes "
                              "after the declared end are a torn-file window in which every prefix loads" % (size, declared), case)
                return
            ks = sorted(set(range(size - 1, max(size - 9000, 0), -1)) | set(range(0, 64)) |
                        set(int(x) for x in ctx.rng.integers(64, size, size=300)), reverse=True)
        if case.get("only_k") is not None:
            ks = [int(case["only_k"])]
        # the torn file reaches load() through whatever file object the caller has: read-only or updatable
        mode = case.get("open_mode") or ["rb", "r+b"][ctx.counters["files"] % 2]
        ctx.count("open_mode:" + mode)
        for k in ks:
            if os.path.getsize(p) != k:
                os.truncate(p, k)
            if os.path.getsize(p) != k:
                raise RuntimeError("could not truncate")
            ctx.evaluation(h + ":%d" % k, k >= 16)
            ctx.count("cuts_in_payload" if k >= 16 else "cuts_in_header")
            if k == size - 1:
                ctx.count("cut=len-1")
            try:
                r = load_path(p, mode)
            except Exception as e:
                ctx.count("rejected_by:" + type(e).__name__)
                continue
            n = len(r[0])
            del r
            c2m = mode
            region = "header" if k < 16 else ("index" if k < size // 2 else "rowids")
            c2 = dict(case)
            c2["only_k"] = k
            c2["open_mode"] = c2m
            ctx.violation("torn-file-accepted:cut-in-%s" % region,
                          "load() returned %d entries for the %d-byte prefix of a %d-byte file" % (n, k, size), c2)
            return
        if ctx.counters["files"] % 37 == 1:
            ctx.sample({"file_bytes": size, "cut_points": size, "entries": len(ent), "arity": case["arity"]})
    finally:
        try:
            os.unlink(p)
        except OSError:
            pass


def run_shard(ctx):
    from ..worker import safe_judge
    import sys as _sys

    mod = _sys.modules[__name__]
    kind = ctx.shard["kind"]
    if ctx.shard.get("optimized"):
        import sys as _sys

        if _sys.flags.optimize < 1:
            ctx.inconclusive.append("the -O shard is not running with asserts stripped")
            return
        ctx.count("class:loader_run_with_python_-O")
    if kind == "cuts":
        for i in range(ctx.shard["n"]):
            safe_judge(ctx, mod, page_boundary_case(ctx.rng) if i % 10 == 9 else small_case(ctx.rng))
        if ctx.shard_index < 3 or ctx.tier == "thorough":
            safe_judge(ctx, mod, big_file_case(ctx.rng))
            if ctx.full():
                return
    elif kind == "trace":
        for i in range(ctx.shard["n"]):
            trace_one(ctx, big_file_case(ctx.rng) if i == 0 else indx.indx_case(ctx.rng, max_entries=300))
    elif kind == "kill":
        kill_experiment(ctx, ctx.shard["n"])


SAVER = r"""
import sys, json, numpy
sys.path.insert(0, %(vf)r)
from vf import util
from catii.indxio import IndxIO
case = util.from_jsonable(json.load(open(sys.argv[1])))
ent = {tuple(int(c) for c in k): numpy.asarray(v, dtype=numpy.uint32) for k, v in case["entries"]}
reps = int(sys.argv[3]) if len(sys.argv) > 3 else 1
with open(sys.argv[2], "wb") as f:
    IndxIO.save(f, ent, int(case["common"]), numpy.dtype(numpy.uint32))
"""


def trace_one(ctx, case):
    """strace the saver; every write on the file must start at the end of file."""
    import json
    from .. import util, VERIF_ROOT

    d = tempfile.mkdtemp(prefix="vf-trace-", dir=indx.TMPDIR)
    try:
        cj = os.path.join(d, "case.json")
        with open(cj, "w") as f:
            json.dump(util.to_jsonable({"entries": case["entries"], "common": case["common"]}), f)
        out = os.path.join(d, "out.indx")
        tr = os.path.join(d, "trace.txt")
        script = os.path.join(d, "saver.py")
        with open(script, "w") as f:
            f.write(SAVER % {"vf": VERIF_ROOT})
        env = dict(os.environ)
        env.pop("LD_PRELOAD", None)
        r = subprocess.run(["strace", "-f", "-e", "trace=write,pwrite64,writev,lseek,ftruncate,truncate,fallocate", "-P", out,
                            "-o", tr, sys.executable, script, cj, out], env=env, capture_output=True, timeout=600)
        if r.returncode != 0 or not os.path.exists(tr):
            ctx.inconclusive.append("strace run failed: rc=%s %s" % (r.returncode, r.stderr[-400:].decode("utf-8", "replace")))
            return
        pos = 0
        end = 0
        nwrites = 0
        for line in open(tr):
            m = re.search(r"\b(write|pwrite64|writev|lseek|ftruncate|truncate|fallocate)\((.*)\)\s+=\s+(-?\d+)", line)
            if not m:
                continue
            call, args, ret = m.group(1), m.group(2), int(m.group(3))
            if ret < 0:
                continue
            if call == "lseek":
                pos = ret
            elif call in ("write", "writev"):
                nwrites += 1
                if pos != end:
                    ctx.violation("writer-not-append-only", "write of %d bytes at offset %d while the file ends at %d: %s"
                                  % (ret, pos, end, line.strip()[:200]), case)
                    return
                pos += ret
                end = max(end, pos)
            elif call == "pwrite64":
                off = int(args.rsplit(",", 1)[1])
                nwrites += 1
                if off != end:
                    ctx.violation("writer-not-append-only", "pwrite at %d while the file ends at %d" % (off, end), case)
                    return
                end = max(end, off + ret)
            else:
                ctx.violation("writer-changes-length-without-data", "the writer truncates / preallocates the file, so a torn "
                              "file is not a byte prefix of the complete one: %s" % line.strip()[:200], case)
                return
        if nwrites == 0 or end != os.path.getsize(out):
            ctx.inconclusive.append("write trace incomplete: %d writes, traced end %d, file size %d"
                                    % (nwrites, end, os.path.getsize(out)))
            return
        ctx.count("trace:writes_checked", nwrites)
        ctx.count("trace:files")
        ctx.evaluation("trace:%d:%d" % (nwrites, end), False)
    finally:
        import shutil

        shutil.rmtree(d, ignore_errors=True)


KILL_SAVER = r"""
import sys, numpy
from catii.indxio import IndxIO
n_ent, n_ids = int(sys.argv[2]), int(sys.argv[3])
ent = {(i, i % 7): numpy.arange(0, n_ids, dtype=numpy.uint32) * (i % 5 + 1) for i in range(n_ent)}
sys.stdout.write("READY\n"); sys.stdout.flush()
sys.stdin.readline()
with open(sys.argv[1], "wb") as f:
    IndxIO.save(f, ent, 3, numpy.dtype(numpy.uint32))
sys.stdout.write("DONE\n"); sys.stdout.flush()
"""


def kill_experiment(ctx, n):
    """SIGKILL a saving subprocess when the file has grown past a seeded size;
    whatever is on disk must be the complete file or be rejected."""
    rng = ctx.rng
    d = tempfile.mkdtemp(prefix="vf-kill-", dir=indx.TMPDIR)
    n_ent, n_ids = 2000, 16000
    try:
        script = os.path.join(d, "saver.py")
        with open(script, "w") as f:
            f.write(KILL_SAVER)
        out = os.path.join(d, "out.indx")
        env = dict(os.environ)

        def start():
            p = subprocess.Popen([sys.executable, script, out, str(n_ent), str(n_ids)], env=env,
                                 stdin=subprocess.PIPE, stdout=subprocess.PIPE)
            if p.stdout.readline().strip() != b"READY":
                raise RuntimeError("saver did not get ready")
            return p

        p = start()
        p.stdin.write(b"go\n"); p.stdin.flush()
        p.stdout.readline()
        p.wait()
        full_size = os.path.getsize(out)
        with open(out, "rb") as f:
            full_head = f.read(1 << 16)
        os.unlink(out)
        outcomes = {}
        for i in range(n):
            threshold = int(rng.uniform(0, 1.02) * full_size) if i % 10 else int(gen.pick(rng, [0, 1, 8, 15, 16, 17, 40]))
            p = start()
            p.stdin.write(b"go\n"); p.stdin.flush()
            deadline = time.time() + 60
            while time.time() < deadline:
                try:
                    if os.path.getsize(out) >= threshold:
                        break
                except OSError:
                    pass
                if p.poll() is not None:
                    break
            p.send_signal(signal.SIGKILL)
            p.wait()
            ctx.count("kill:runs")
            if not os.path.exists(out):
                outcomes["no_file"] = outcomes.get("no_file", 0) + 1
                continue
            size = os.path.getsize(out)
            with open(out, "rb") as f:
                is_prefix = full_head.startswith(f.read(1 << 16)[: 1 << 16]) or size >= (1 << 16)
            ctx.evaluation("kill:%d" % size, 16 <= size < full_size)
            try:
                r = load_path(out)
                n_loaded = len(r[0])
                intact = n_loaded == n_ent and all(len(v) == n_ids and int(v[-1]) == (n_ids - 1) * (k[0] % 5 + 1)
                                                   for k, v in list(r[0].items())[-5:])
                del r
                if size == full_size and intact:
                    outcomes["complete"] = outcomes.get("complete", 0) + 1
                elif size == full_size:
                    ctx.violation("torn-file-accepted:kill", "after SIGKILL a file of the complete length loads, but not with the "
                                  "data that was being saved (length reserved before the data was written?)",
                                  {"kill_threshold": threshold, "size": size})
                else:
                    ctx.violation("torn-file-accepted:kill",
                                  "after SIGKILL the %d-byte file (complete: %d bytes) loaded %d entries"
                                  % (size, full_size, n_loaded), {"kill_threshold": threshold, "size": size})
            except Exception as e:
                key = "rejected:" + type(e).__name__
                outcomes[key] = outcomes.get(key, 0) + 1
                if 16 <= size < full_size:
                    ctx.count("kill:torn_in_payload_rejected")
                elif size < 16:
                    ctx.count("kill:torn_in_header_rejected")
                else:
                    ctx.violation("complete-file-rejected:kill", "complete file rejected: %r" % (e,), {"size": size})
            if not is_prefix:
                ctx.note("killed writer left a file whose head is not a prefix of the complete file")
                ctx.count("kill:not_a_prefix")
            os.unlink(out)
        ctx.extra["kill_outcomes"] = outcomes
        ctx.sample({"kill_experiment": {"file_bytes": full_size, "runs": n, "outcomes": outcomes}})
    finally:
        import shutil

        shutil.rmtree(d, ignore_errors=True)
