"""Aggregate-call helpers shared by C03, C04, C05, C13, C16, C17, C20."""
import numpy

from . import gen, oracles

NaN = float("nan")
SHARED = ["count", "valid_count", "sum", "mean"]


def agg_inputs(rng, n, k=None, need_missing=False, tiny_weights=False):
    """Fact + weights + policy for n rows.  tiny_weights: one case in eight has all its weights multiplied by
    2^-30 or 2^-40 (exact; weights normalised to a tiny total): every weighted count and sum scales with them,
    means and the set of missing cells do not change at all."""
    if k is None:
        k = gen.wpick(rng, [(None, 5), (1, 1), (2, 2), (3, 2)])
    fact = gen.fact_case(rng, n, k=k)
    weights = gen.weight_case(rng, n)
    if tiny_weights and weights["kind"] != "none" and rng.random() < 0.125:
        sc = float(gen.pick(rng, [2.0 ** -30, 2.0 ** -40]))
        v = numpy.asarray(weights["values"], dtype=float)
        scaled = numpy.where(numpy.isfinite(v) & (numpy.abs(v) < 1e200), v * sc, v)
        weights["values"] = float(scaled) if weights["kind"] == "scalar" else scaled
        weights["scale"] = sc
    return {"fact": fact, "weights": weights, "ignore_missing": bool(rng.random() < 0.5)}


def counter_boundary_case(rng):
    """A cube in which one cell has exactly m missing (or valid) rows, m on a narrow-integer boundary
    (255/256/257, 512, 65535/65536): a per-cell counter kept in too narrow a type wraps there."""
    m = int(gen.pick(rng, [255, 256, 257, 512, 256, 65536, 65535]))
    ndims = int(rng.integers(1, 3))
    ext = [int(rng.integers(2, 4)) for _ in range(ndims)]
    target = tuple(int(rng.integers(0, e)) for e in ext)
    r = int(rng.integers(2, 40))
    n = m + r
    dense = []
    for d in range(ndims):
        a = numpy.empty(n, dtype=numpy.int64)
        a[:m] = target[d]
        a[m:] = rng.integers(0, ext[d], size=r)
        dense.append(a)
    # make sure the target cell also holds at least one extra row
    for d in range(ndims):
        dense[d][m] = target[d]
    perm = rng.permutation(n)
    dense = [a[perm] for a in dense]
    special = numpy.zeros(n, dtype=bool)
    special[:m] = True
    special = special[perm]
    which = gen.pick(rng, ["missing_facts", "valid_facts", "missing_weights"])
    k = gen.pick(rng, [None, None, 2])
    shape = (n,) if k is None else (n, k)
    values = (rng.integers(-16, 16, size=shape) / 4.0).astype(float)
    if which == "missing_facts":
        fmiss = special.copy()
    elif which == "valid_facts":
        fmiss = ~special
        fmiss[rng.random(n) < 0.5] &= True
    else:
        fmiss = numpy.zeros(n, dtype=bool)
    if k is not None:
        fm = numpy.zeros(shape, dtype=bool)
        fm[:, 0] = fmiss
        fmiss = fm
    if rng.random() < 0.5:
        v = values.copy()
        v[fmiss] = numpy.nan
        fact = {"values": v, "validity": None, "dyadic": True}
    else:
        fact = {"values": values, "validity": ~fmiss, "dyadic": True}
    if which == "missing_weights":
        w = (rng.integers(1, 9, size=n) / 4.0).astype(float)
        if rng.random() < 0.5:
            w2 = w.copy()
            w2[special] = numpy.nan
            weights = {"kind": "array", "values": w2}
        else:
            weights = {"kind": "tuple", "values": w, "validity": ~special}
    else:
        weights = gen.weight_case(rng, n, cls=gen.pick(rng, ["none", "none", "array"]), dyadic=True)
    commons = [int(rng.integers(0, e)) for e in ext]
    return {"dense": dense, "commons": commons, "shape": tuple(ext), "extents": ext, "n": n, "fact": fact,
            "weights": weights, "ignore_missing": bool(rng.random() < 0.5), "boundary_m": m, "boundary_kind": which}


def unequal_cells_case(rng):
    """Cells whose (weighted) sizes differ by five to nine orders of magnitude: weights of 2^20 in one
    category against 1 or 2^-10 in another (all dyadic, so every sum is exact), or one row against a
    hundred thousand.  A tolerance that scales with the largest cell must not swallow the smallest."""
    big_n = rng.random() < 0.3
    ndims = int(rng.integers(1, 3))
    ext = [int(rng.integers(2, 5)) for _ in range(ndims)]
    if big_n:
        n = int(gen.pick(rng, [120000, 250000]))
        dense = []
        for d in range(ndims):
            a = numpy.zeros(n, dtype=numpy.int64)
            where = rng.choice(n, size=ext[d] - 1, replace=False)
            a[where] = numpy.arange(1, ext[d])                # every other category: exactly one row
            dense.append(a)
        weights = {"kind": "none"}
    else:
        n = int(gen.pick(rng, [12, 40, 150]))
        dense = [rng.integers(0, e, size=n).astype(numpy.int64) for e in ext]
        mags = [2.0 ** int(gen.pick(rng, [-10, 0, 20])) for _ in range(ext[0])]
        mags[0], mags[-1] = 2.0 ** 20, float(gen.pick(rng, [1.0, 2.0 ** -10]))
        w = (rng.integers(1, 9, size=n) / 4.0) * numpy.array(mags)[dense[0]]
        miss = rng.random(n) < float(gen.pick(rng, [0.0, 0.1]))
        if rng.random() < 0.5:
            w2 = w.copy()
            w2[miss] = numpy.nan
            weights = {"kind": "array", "values": w2}
        else:
            weights = {"kind": "tuple", "values": w, "validity": ~miss}
    k = gen.pick(rng, [None, None, 2])
    shape = (n,) if k is None else (n, k)
    values = (rng.integers(-16, 16, size=shape) / 4.0).astype(float)
    fmiss = rng.random(shape) < float(gen.pick(rng, [0.0, 0.05, 0.2]))
    if rng.random() < 0.5:
        v = values.copy()
        v[fmiss] = numpy.nan
        fact = {"values": v, "validity": None, "dyadic": True}
    else:
        fact = {"values": values, "validity": ~fmiss, "dyadic": True}
    commons = [int(rng.integers(0, e)) for e in ext]
    if big_n:
        commons = [0 if rng.random() < 0.8 else c for c in commons]
    return {"dense": dense, "commons": commons, "shape": tuple(ext), "extents": ext, "n": n, "fact": fact,
            "weights": weights, "ignore_missing": bool(rng.random() < 0.5), "unequal_cells": True}


def many_cells_case(rng):
    """A cube of more than 1024 cells (where per-cell loops may switch strategy), with rows in cell 0."""
    exts = gen.pick(rng, [(40, 30), (33, 33), (1100,), (257, 5), (11, 10, 10)])
    n = int(gen.pick(rng, [40, 200, 600]))
    dense = []
    for e in exts:
        a = rng.integers(0, e, size=n).astype(numpy.int64)
        a[: max(2, n // 20)] = 0                      # several rows in cell (0, ..., 0)
        a[-1] = e - 1
        dense.append(a)
    commons = [int(rng.integers(0, e)) for e in exts]
    c = {"dense": dense, "commons": commons, "shape": tuple(exts), "extents": list(exts), "n": n, "many_cells": True}
    c.update(agg_inputs(rng, n, k=gen.pick(rng, [2, 3, None])))
    return c


def ref_parts(case):
    n = case["n"]
    fact = gen.fact_parts(case["fact"])
    w, wv = gen.weight_parts(case["weights"], n)
    weights = None if w is None else (w, wv)
    return fact, weights


def reference(case, agg, dense, shape):
    fact, weights = ref_parts(case)
    if agg == "count":
        return oracles.reference("count", dense, shape, case["n"], None, weights, case["ignore_missing"])
    return oracles.reference(agg, dense, shape, case["n"], fact, weights, case["ignore_missing"])


def tolerance(case, agg):
    fact, weights = ref_parts(case)
    if agg in ("count", "valid_count"):
        mag = oracles.magnitude(None, weights, case["n"])
    else:
        mag = oracles.magnitude(fact, weights, case["n"])
    # weights given on a tiny scale (an exact power of two): counts and sums scale with them, so does their tolerance
    sc = float(case["weights"].get("scale", 1.0))
    tol = 1e-9 * max(1.0, mag / sc) * (1.0 if agg == "mean" else sc)
    if agg == "mean":
        tol *= 20  # a mean divides the rounding error of a sum by a cell weight >= 0.05
    return tol


def call(cube, agg, case, rma, shared=None, via="shortcut"):
    """Run one shared aggregate on a ccube or xcube.  Argument objects are fresh copies unless
    `shared` (a dict filled on first use) is given: then every call receives the SAME objects, as a
    caller who keeps its arrays around would pass them."""
    if shared is not None:
        if "w" not in shared:
            shared["w"] = gen.weight_arg(case["weights"])
            shared["f"] = gen.fact_arg(case["fact"])
        w, f = shared["w"], shared["f"]
    else:
        w = gen.weight_arg(case["weights"])
        f = gen.fact_arg(case["fact"])
    ig = case["ignore_missing"]
    if via == "calculate_untraced" and type(cube).__name__ == "ccube":
        # the same aggregate through its function object, built without its timing bookkeeping
        from catii import ffuncs

        if agg == "count":
            fn = ffuncs.ffunc_count(w, case["n"] if not cube.dims else None, ig, rma, tracing=False)
        else:
            fn = getattr(ffuncs, "ffunc_" + agg)(f, w, ig, rma, tracing=False)
        return cube.calculate([fn])[0]
    if agg == "count":
        return cube.count(weights=w, N=case["n"] if not cube.dims else None, ignore_missing=ig, return_missing_as=rma)
    return getattr(cube, agg)(f, weights=w, ignore_missing=ig, return_missing_as=rma)


def xcube_dense(rng, dims, dense, cls):
    """Dense arrays for the array cube in a chosen integer dtype class."""
    if cls == "from_index":
        # to_array() covers 1-D and 2-D indexes; for a 3-axis dimension the same
        # narrow unsigned dtype is applied to the harness-side dense array.
        out = []
        for d, a in zip(dims, dense):
            if a.ndim <= 2:
                out.append(d.to_array())
            else:
                hi = max(int(a.max()) if a.size else 0, int(d.common))
                out.append(a.astype([dt for dt in gen.storage_dtypes(0, hi) if dt.kind == "u"][0]))
        return out
    out = []
    for a in dense:
        hi = int(a.max()) if a.size else 0
        dts = [dt for dt in gen.storage_dtypes(0, hi) if dt.kind == ("i" if cls == "signed" else "u")]
        dt = gen.pick(rng, dts) if cls != "int64" else numpy.dtype("int64")
        out.append(gen.layout_variant(rng, a.astype(dt))[0])
    return out


def has_missing_rows(case):
    f = case["fact"]
    miss = (~f["validity"]).any() if f["validity"] is not None else numpy.isnan(f["values"]).any()
    w = case["weights"]
    if w["kind"] == "array":
        miss = miss or numpy.isnan(w["values"]).any()
    elif w["kind"] == "tuple":
        miss = miss or (~w["validity"]).any()
    return bool(miss)


def feature_key(case, agg, cube_kind):
    f, w = case["fact"], case["weights"]
    return "%s:%s:fact=%s%s,w=%s,%s" % (
        cube_kind, agg, "cols" if f["values"].ndim == 2 else "1col", "" if f["validity"] is None else "+validity",
        w["kind"], "ignore" if case["ignore_missing"] else "propagate")


# --------------------------------------------------------------------------- #
# the statistics only the array cube offers
XONLY = ["stddev", "quantile", "min", "max", "corrcoef", "covariance"]


def xonly_inputs(rng, n, agg):
    """Fact + weights valid for the given array-cube-only statistic."""
    if agg in ("min", "max"):
        kind = gen.wpick(rng, [("f8", 3), ("i8", 2), ("M8", 1)])
        if kind == "M8":
            base = numpy.datetime64("2020-01-01", "s")
            vals = base + rng.integers(0, 10 ** 6, size=n).astype("timedelta64[s]")
            density = gen.pick(rng, [0.0, 0.2, 0.6])
            missing = rng.random(n) < density
            if rng.random() < 0.5:
                vals = vals.copy()
                vals[missing] = numpy.datetime64("NaT")
                fact = {"values": vals, "validity": None, "dyadic": True}
            else:
                fact = {"values": vals, "validity": ~missing, "dyadic": True}
        else:
            fact = gen.fact_case(rng, n, k=None, kind=kind)
            if kind == "i8" and rng.random() < 0.3:
                # integers no float64 can hold exactly (ids, hashes): beyond 2^53, both signs
                off = int(gen.pick(rng, [2 ** 62, -(2 ** 62), 2 ** 53 + 1]))
                v = fact["values"]
                small = numpy.abs(v) < 1000
                fact["values"] = numpy.where(small, v + off, v)
                fact["huge_int"] = True
        weights = {"kind": "none"}
    elif agg in ("corrcoef", "covariance"):
        fact = gen.fact_case(rng, n, k=int(rng.integers(2, 4)), kind="f8", dyadic=False)
        if rng.random() < 0.2:
            off = float(gen.pick(rng, [1.0e6, 1.7e9]))
            v = fact["values"]
            fact["values"] = numpy.where(numpy.isfinite(v), numpy.round(v * 37.0) + off, v)
            fact["offset"] = off
        if agg == "covariance":
            weights = gen.weight_case(rng, n, cls=gen.pick(rng, ["none", "array", "tuple"]), dyadic=False)
            # strictly positive weights (a zero weight sum is not a covariance)
            if weights["kind"] != "none":
                weights["values"] = numpy.where(numpy.nan_to_num(weights["values"], nan=1.0, posinf=1.0) <= 0, 0.3,
                                                weights["values"])
        else:
            weights = {"kind": "none"}
    elif agg == "stddev":
        fact = gen.fact_case(rng, n, k=gen.pick(rng, [None, None, 2, 3]), dyadic=bool(rng.random() < 0.3))
        if fact["values"].dtype.kind == "f" and rng.random() < 0.25:
            # large magnitude, small spread (timestamps, ids): where a one-pass formula loses everything
            off = float(gen.pick(rng, [1.0e6, 1.7e9, -3.0e8, 2.0 ** 40]))
            v = fact["values"]
            fact["values"] = numpy.where(numpy.isfinite(v), numpy.round(v * 37.0) + off, v)
            fact["offset"] = off
        weights = gen.weight_case(rng, n, cls=gen.pick(rng, ["none", "none", "array", "tuple"]), dyadic=False)
        if weights["kind"] != "none":
            # strictly positive weights (n/(n-1) with zero-weight rows has no textbook reading)
            weights["values"] = numpy.where(numpy.nan_to_num(weights["values"], nan=1.0, posinf=1.0) <= 0, 0.3,
                                            weights["values"])
    else:  # quantile
        fact = gen.fact_case(rng, n, k=gen.pick(rng, [None, None, 2]), kind="f8")
        weights = gen.weight_case(rng, n, cls=gen.pick(rng, ["none", "none", "array", "tuple", "scalar"]), dyadic=True)
        if weights["kind"] in ("array", "tuple"):
            # strictly positive weights - except that one input in four keeps its zero weights: a valid row of
            # weight zero carries no mass, but it is not a missing row (only the missing rule is judged for cells
            # whose weights are all zero)
            v = weights["values"]
            if rng.random() < 0.75:
                weights["values"] = numpy.where(numpy.nan_to_num(v, nan=1.0, posinf=1.0) <= 0, 0.5, v)
            else:
                weights["zero_weights_kept"] = True
        elif weights["kind"] == "scalar":
            weights["values"] = float(gen.pick(rng, [0.5, 1.0, 2.0]))
    if agg not in ("min", "max") and fact["values"].dtype.kind == "f" and not fact.get("offset") and rng.random() < 0.25:
        # the same data on a very small / large scale (units of 1e-6, 1e-10, 1e7): scaling by a power of two is exact,
        # so every statistic scales with it - a fixed absolute threshold inside the computation does not
        sc = float(gen.pick(rng, [2.0 ** -20, 2.0 ** -34, 2.0 ** 24]))
        v = fact["values"]
        fact["values"] = numpy.where(numpy.isfinite(v) & (numpy.abs(v) < 1e200), v * sc, v)
        fact["scale"] = sc
    return {"fact": fact, "weights": weights, "ignore_missing": bool(rng.random() < 0.5),
            "p": float(gen.pick(rng, [0, 0.1, 0.25, 0.5, 0.75, 0.9, 1, round(float(rng.random()), 3)]))}


def call_x(cube, agg, case, rma):
    w = gen.weight_arg(case["weights"])
    ig = case["ignore_missing"]
    f = gen.fact_arg(case["fact"])
    if agg in ("min", "max"):
        return getattr(cube, agg)(f, ignore_missing=ig, return_missing_as=rma)
    if agg == "quantile":
        return cube.quantile(f, case["p"], weights=w, ignore_missing=ig, return_missing_as=rma)
    return getattr(cube, agg)(f, weights=w, ignore_missing=ig, return_missing_as=rma)


def call_any(cube, agg, case, rma, via="shortcut"):
    if agg in SHARED:
        return call(cube, agg, case, rma, via=via)
    return call_x(cube, agg, case, rma)


def nat_for(case):
    """return_missing_as for the in-place format: NaT for datetime facts."""
    if case["fact"]["values"].dtype.kind == "M":
        return numpy.datetime64("NaT")
    return NaN
