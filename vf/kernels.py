"""Shared workload pieces for the sorted-set kernel properties (C08, C09)."""
import itertools

import numpy

U32 = numpy.uint32
OPS = {
    "intersect": lambda a, b: a & b,
    "union": lambda a, b: a | b,
    "difference": lambda a, b: a - b,
}


def embeddings(size, rng):
    """Order-preserving embeddings of universe {0..size-1} into uint32."""
    top = 2 ** 32 - 1
    e = {
        "identity": list(range(size)),
        "gapped": [3 + 7 * i for i in range(size)],
        "extremes": ([0, 1] + [2 ** 31 - 1 + i for i in range(size - 4)] + [top - 1, top])[:size]
        if size >= 4 else [0, top - 1, top][:size],
        "random": sorted(int(x) for x in rng.choice(2 ** 32, size=size, replace=False)),
    }
    e["extremes"] = sorted(set(e["extremes"]))
    assert all(len(v) == size for v in e.values()), e
    return e


def subsets(size):
    """All subsets of range(size) as sorted tuples, indexed by bitmask."""
    return [tuple(i for i in range(size) if m >> i & 1) for m in range(1 << size)]


def arr(values):
    return numpy.array(list(values), dtype=U32)


def is_strict_u32(x):
    return (isinstance(x, numpy.ndarray) and x.dtype == U32 and x.ndim == 1
            and (len(x) < 2 or bool(numpy.all(x[1:] > x[:-1]))))


def nontrivial_pair(sa, sb):
    return bool(sa) and bool(sb) and not (sa <= sb) and not (sb <= sa)


def overlap_class(sa, sb):
    if not sa and not sb:
        return "both_empty"
    if not sa:
        return "left_empty"
    if not sb:
        return "right_empty"
    if sa == sb:
        return "identical"
    if max(sa) < min(sb):
        return "disjoint_left_first"
    if max(sb) < min(sa):
        return "disjoint_right_first"
    if max(sa) == min(sb) or max(sb) == min(sa):
        return "touching"
    if sa < sb or sb < sa:
        return "nested"
    if not (sa & sb):
        return "interleaved_disjoint"
    return "interleaved"


def random_pair(rng, maxlen=200, universe=None):
    """Structured random pair of strictly increasing uint32 arrays."""
    kind = int(rng.integers(0, 6))
    n1 = int(rng.integers(0, maxlen + 1))
    n2 = int(rng.integers(0, maxlen + 1))
    if universe is None:
        universe = int(pickone(rng, [maxlen // 2 + 2, 4 * maxlen + 5, 2 ** 32]))
    n1, n2 = min(n1, universe), min(n2, universe)
    a = numpy.sort(rng.choice(universe, size=n1, replace=False)) if universe < 2 ** 31 else \
        numpy.unique(rng.integers(0, universe, size=n1, dtype=numpy.uint64))
    b = numpy.sort(rng.choice(universe, size=n2, replace=False)) if universe < 2 ** 31 else \
        numpy.unique(rng.integers(0, universe, size=n2, dtype=numpy.uint64))
    a = a.astype(numpy.uint64)
    b = b.astype(numpy.uint64)
    if kind == 1 and len(a):       # nested
        b = a[rng.random(len(a)) < 0.5]
    elif kind == 2 and len(a) and len(b):  # disjoint ranges
        b = b + a.max() + 1
        b = b[b < 2 ** 32]
    elif kind == 3 and len(a) and len(b):  # touching
        b = numpy.unique(numpy.concatenate([[a.max()], b + a.max()]))
        b = b[b < 2 ** 32]
    elif kind == 4:                # identical
        b = a.copy()
    elif kind == 5 and len(a):     # include the top of the range
        a = numpy.unique(numpy.concatenate([a, [2 ** 32 - 1]]))
    if rng.random() < 0.5:
        a, b = b, a
    return a.astype(U32), b.astype(U32)


LADDER = [16, 17, 32, 33, 256, 257, 1024, 1025, 4096, 32768, 32769, 65536, 65537, 100000]


def lopsided_pair(rng, long_len=None):
    """One long and one short strictly increasing array (either order): the shapes that search-based
    or block-skipping shortcuts target.  The short one may reach beyond / stay inside the long one's
    range and may share its first / last element."""
    n = int(long_len or pickone(rng, LADDER))
    step = int(pickone(rng, [1, 1, 2, 3]))
    start = int(rng.integers(0, 50))
    long_ = (start + numpy.cumsum(rng.integers(1, step + 1, size=n))).astype(numpy.uint64)
    k = int(pickone(rng, [1, 2, 3, 5, 9, 30]))
    # interior part: members, near members (hits and misses interleaved, adjacent values), or anything
    inner = int(rng.integers(0, 3))
    lo_v, hi_v = int(long_[0]), int(long_[-1])
    pick_from = long_[n // 2:] if rng.random() < 0.3 else long_
    base = rng.choice(pick_from, size=min(k, len(pick_from)), replace=False)
    if inner == 0:
        mid = base
    elif inner == 1:
        mid = numpy.concatenate([base, base + 1])
    else:
        mid = rng.integers(lo_v, hi_v + 1, size=k).astype(numpy.uint64)
    mid = mid[(mid > lo_v) & (mid < hi_v)]
    # how the short array's ends relate to the long one's: below / equal / above, at either end
    low = int(rng.integers(0, 4))
    high = int(rng.integers(0, 4))
    parts = [mid]
    if low == 0 and lo_v > 0:
        parts.append([lo_v - 1])
    elif low == 1:
        parts.append([lo_v])
    if high == 0:
        parts.append([hi_v + int(pickone(rng, [1, 2, 7]))])
    elif high == 1:
        parts.append([hi_v])
    short = numpy.unique(numpy.concatenate([numpy.asarray(p, dtype=numpy.uint64) for p in parts]))
    if len(short) == 0:
        short = numpy.array([hi_v], dtype=numpy.uint64)
    a, b = long_.astype(U32), numpy.asarray(short, dtype=numpy.uint64).astype(U32)
    return (a, b) if rng.random() < 0.5 else (b, a)


def shared_base_views(rng, n=None):
    """Two different strictly increasing views of ONE buffer that start at the same address and have
    the same length (different steps): equal by address and length, different by content."""
    n = int(n or rng.integers(2, 40))
    base = numpy.cumsum(rng.integers(1, 4, size=2 * n + 2)).astype(U32)
    return base[0:n], base[0:2 * n:2]


def pickone(rng, seq):
    return seq[int(rng.integers(0, len(seq)))]


def presentations(values, rng):
    """Yield (label, array) presentations of the same sorted values."""
    base = arr(values)
    n = len(base)
    yield "own", base
    big = numpy.full(n + 64, 0xABABABAB, dtype=U32)
    off = 17
    big[off:off + n] = base
    yield "view_in_buffer", big[off:off + n]
    st = numpy.full(2 * n + 6, 0xCDCDCDCD, dtype=U32)
    st[3:3 + 2 * n:2] = base
    yield "strided", st[3:3 + 2 * n:2]
    ro = base.copy()
    ro.flags.writeable = False
    yield "readonly", ro
    rev = numpy.full(n + 8, 0xEFEFEFEF, dtype=U32)
    rev[4:4 + n] = base[::-1]
    yield "reversed", rev[4:4 + n][::-1]
    # the uint32 field of a packed record array: byte stride 6 (not a multiple of the item size), elements unaligned,
    # two foreign bytes (0xA5A5) between consecutive elements; and the same field read backwards
    rec = numpy.zeros(n + 2, dtype=[("k", "<u2"), ("v", "<u4")])
    rec["k"] = 0xA5A5
    rec["v"] = 0xA5A5A5A5
    rec["v"][1:1 + n] = base
    yield "record_field", rec["v"][1:1 + n]
    rec2 = rec.copy()
    rec2["v"][1:1 + n] = base[::-1]
    yield "record_field_reversed", rec2["v"][1:1 + n][::-1]


SENTINELS = (0xABABABAB, 0xCDCDCDCD, 0xEFEFEFEF)


# --------------------------------------------------------------------------- #
# several threads inside the kernels at the same time (the cubes call them from a thread pool)
def threaded_workload(so, rng, threads=8, rounds=25, big=150000):
    """Every thread owns private operands (long enough that the GIL-free merge loops of different threads
    coincide) and calls all four kernels `rounds` times; each result is compared, in the calling thread,
    with the answer NumPy's own set routines gave beforehand.  Returns
    {"calls", "overlapping", "mismatches": [(thread, op, detail)], "errors": [(thread, op, exception)]}."""
    import threading
    import time

    U32 = numpy.uint32
    plans = []
    for t in range(threads):
        la = int(rng.integers(big // 3, big))
        lb = int(rng.integers(big // 3, big))
        a = numpy.unique(rng.integers(0, 3 * big, size=la, dtype=numpy.int64)).astype(U32)
        b = numpy.unique(rng.integers(0, 3 * big, size=lb, dtype=numpy.int64)).astype(U32)
        # multi-way lists: the same number of arrays in every thread, very different lengths
        lens = [int(x) for x in rng.permutation([int(rng.integers(1, 40)), int(rng.integers(500, 5000)), int(rng.integers(big // 4, big))])]
        many = [numpy.unique(rng.integers(0, 3 * big, size=m, dtype=numpy.int64)).astype(U32) for m in lens]
        ops = [("intersect", so.set_intersect_merge_np, (a, b), numpy.intersect1d(a, b, assume_unique=True).astype(U32)),
               ("union", so.set_union_merge_np, (a, b), numpy.union1d(a, b).astype(U32)),
               ("difference", so.set_difference_merge_np, (a, b), numpy.setdiff1d(a, b, assume_unique=True).astype(U32)),
               ("many", so.set_union_merge_many, (many,), numpy.unique(numpy.concatenate(many)).astype(U32))]
        plans.append(ops)
    spans = [[] for _ in range(threads)]
    mismatches = [[] for _ in range(threads)]
    errors = [[] for _ in range(threads)]
    barrier = threading.Barrier(threads)

    def work(t):
        barrier.wait()
        for r in range(rounds):
            for name, fn, args, expected in plans[t]:
                t0 = time.perf_counter_ns()
                try:
                    res = fn(*args)
                except BaseException as e:  # noqa: B902 - reported by the caller
                    errors[t].append((name, e))
                    return
                spans[t].append((t0, time.perf_counter_ns()))
                if not (isinstance(res, numpy.ndarray) and res.dtype == U32 and res.shape == expected.shape
                        and numpy.array_equal(res, expected)):
                    if len(mismatches[t]) < 3:
                        got = numpy.asarray(res)
                        where = None
                        if got.shape == expected.shape:
                            where = int(numpy.argmax(got != expected))
                        mismatches[t].append((name, "len %s vs expected %d%s" % (got.shape, len(expected),
                                                                                  "" if where is None else ", first difference at %d" % where),
                                              [x.copy() for x in (args[0] if name == "many" else args)]))

    ths = [threading.Thread(target=work, args=(t,), daemon=True) for t in range(threads)]
    for th in ths:
        th.start()
    for th in ths:
        th.join(600)
    alive = sum(1 for th in ths if th.is_alive())
    # how many calls really ran at the same time as a call of another thread
    ev = sorted((s, e, t) for t in range(threads) for s, e in spans[t])
    overlapping = 0
    maxend_other = {}
    for i, (s, e, t) in enumerate(ev):
        for s2, e2, t2 in ev[i + 1:i + 1 + 4 * threads]:
            if s2 >= e:
                break
            if t2 != t:
                overlapping += 1
                break
    return {"calls": sum(len(x) for x in spans), "overlapping": overlapping, "stuck_threads": alive,
            "mismatches": [(t,) + m for t in range(threads) for m in mismatches[t]],
            "errors": [(t,) + e for t in range(threads) for e in errors[t]]}
