#!/venv/bin/python
"""Vet a seeded change produced by a sub-agent and run the checks against it.

    tools/vet_seeded.py <change-dir> [--checks C06 C07 ...] [--tier quick] [--skip-tests]

<change-dir> holds patch.diff, demo.py, meta.json.  Steps, all in a scratch
worktree of /repo under /tmp (removed afterwards):
  1. demo.py on the clean tree must exit 0
  2. patch applies; the extension is rebuilt if the .pyx changed; demo.py must exit non-zero
  3. the repository's test suite shows no failure beyond the 5 pre-existing ones
  4. the named checks (default: the property in meta.json) are run with CATII_SRC=<scratch>/src/catii
Prints one JSON line with the outcome."""
import json
import os
import re
import shutil
import subprocess
import sys
import tempfile

PY = "/venv/bin/python"
KNOWN_FAIL = {
    "tests/test_iindexes.py::TestValidate::test_type_errors",
    "tests/test_xcubes.py::TestXCubeStridedDims::test_xcube_strided_dims",
    "tests/xfuncs/test_xfunc_corrcoef.py::TestXfuncCorrCoefWorkflow::test_single_arr_with_nan_workflow",
    "tests/xfuncs/test_xfunc_corrcoef.py::TestXfuncCorrCoefWorkflow::test_tuple_factvar_workflow",
    "tests/xfuncs/test_xfunc_corrcoef.py::TestXfuncCorrCoefWorkflow::test_tuple_factvar_with_nan_workflow",
}
ROOT = os.path.dirname(os.path.dirname(os.path.abspath(__file__)))


def sh(cmd, **kw):
    return subprocess.run(cmd, capture_output=True, text=True, **kw)


def main(argv):
    d = os.path.abspath(argv[0])
    checks, tier, skip_tests = None, "quick", False
    i = 1
    while i < len(argv):
        if argv[i] == "--checks":
            checks = []
            i += 1
            while i < len(argv) and not argv[i].startswith("--"):
                checks.append(argv[i])
                i += 1
            continue
        if argv[i] == "--tier":
            tier = argv[i + 1]
            i += 2
            continue
        if argv[i] == "--skip-tests":
            skip_tests = True
        i += 1
    meta = json.load(open(os.path.join(d, "meta.json")))
    prop = meta.get("property")
    checks = checks or [prop]
    out = {"dir": d, "property": prop}
    wt = tempfile.mkdtemp(prefix="vet-wt-", dir="/tmp")
    os.rmdir(wt)
    try:
        r = sh(["git", "-C", "/repo", "worktree", "add", "-q", "--detach", wt, "HEAD"])
        if r.returncode:
            out["error"] = "worktree: " + r.stderr
            return out
        so = [f for f in os.listdir("/repo/src/catii") if f.endswith(".so")][0]
        shutil.copy2(os.path.join("/repo/src/catii", so), os.path.join(wt, "src/catii", so))
        env = dict(os.environ, PYTHONPATH=os.path.join(wt, "src"), PYTHONHASHSEED="0")
        demo = os.path.join(d, "demo.py")
        r = sh([PY, demo], env=env, cwd=d, timeout=900)
        out["demo_clean_rc"] = r.returncode
        r = sh(["git", "-C", wt, "apply", os.path.join(d, "patch.diff")])
        out["patch_applies"] = r.returncode == 0
        if r.returncode:
            out["error"] = "apply: " + r.stderr[-500:]
            return out
        changed = sh(["git", "-C", wt, "diff", "--name-only"]).stdout.split()
        out["files"] = changed
        if any(f.endswith(".pyx") for f in changed):
            r = sh([PY, "setup.py", "build_ext", "--inplace"], cwd=wt, env=dict(env, CYTHONIZE_SETUP_PY="1"))
            out["rebuild_rc"] = r.returncode
            if r.returncode:
                out["error"] = "build: " + r.stderr[-800:]
                return out
        r = sh([PY, demo], env=env, cwd=d, timeout=900)
        out["demo_patched_rc"] = r.returncode
        out["demo_patched_tail"] = (r.stdout + r.stderr)[-300:]
        if not skip_tests:
            r = sh([PY, "-m", "pytest", "-q", "-p", "no:cacheprovider", "-n", "6", "--timeout=900", "tests", "benchmarks"],
                   env=env, cwd=wt, timeout=3600)
            failed = set(re.findall(r"^(?:FAILED|ERROR) (\S+)", r.stdout, re.M))
            new = sorted(failed - KNOWN_FAIL)
            if new:
                # re-run just those tests on their own: the benchmarks fail under machine load / memory pressure
                r2 = sh([PY, "-m", "pytest", "-q", "-p", "no:cacheprovider", "--timeout=900"] + new, env=env, cwd=wt, timeout=3600)
                still = set(re.findall(r"^(?:FAILED|ERROR) (\S+)", r2.stdout, re.M))
                out["tests_failed_only_under_load"] = sorted(set(new) - still)
                new = sorted(still)
            out["tests_new_failures"] = new
            out["tests_summary"] = r.stdout.strip().splitlines()[-1] if r.stdout.strip() else r.stderr[-200:]
        res = {}
        for c in checks:
            r = sh([os.path.join(ROOT, "check"), c, "--tier", tier, "--no-evidence"],
                   env=dict(os.environ, CATII_SRC=os.path.join(wt, "src/catii")), timeout=7200)
            keys = sorted({l.strip()[4:] for l in r.stdout.splitlines() if l.strip().startswith("key=")})
            res[c] = {"rc": r.returncode, "keys": keys[:6],
                      "inconclusive": [l[:200] for l in r.stdout.splitlines() if l.startswith("INCONCLUSIVE")][:2]}
        out["checks"] = res
        out["caught_by"] = [c for c, v in res.items() if v["rc"] == 1]
        return out
    finally:
        sh(["git", "-C", "/repo", "worktree", "remove", "--force", wt])
        shutil.rmtree(wt, ignore_errors=True)
        shutil.rmtree(os.path.join(ROOT, "replay"), ignore_errors=True)


if __name__ == "__main__":
    print(json.dumps(main(sys.argv[1:]), indent=1))
