#!/bin/sh
# Offline setup: warm the compiled-kernel cache (plain / bounds-checked / ASan builds of every
# .pyx of the package) from /repo's working tree.  Checks rebuild on their own when a .pyx changes.
cd "$(dirname "$0")" || exit 1
mkdir -p evidence replay .build
for v in plain bc asan; do
  /venv/bin/python - "$v" <<'PY' || exit 1
import os, sys
from vf.build import compile_kernel
from vf import catii_src
src = catii_src()
for name in sorted(os.listdir(src)):
    if name.endswith(".pyx"):
        print(compile_kernel(os.path.join(src, name), sys.argv[1]))
PY
done
echo setup ok
