#!/bin/sh
# tools/rebase_patch.sh <change-dir> <old-base> <new-fix-commit>: re-base <change-dir>/patch.diff (made against
# <old-base>) onto <new-fix-commit> by cherry-picking the fix on top of the change in a scratch worktree.
d=$(readlink -f $1); base=$2; fix=$3; n=$(basename $d); wt=/tmp/wt-rb-$n
git -C /repo worktree add -q --detach $wt $base || exit 2
cd $wt
git apply $d/patch.diff && git -c user.email=a@b -c user.name=x commit -qam change || { echo "cannot apply on $base"; git -C /repo worktree remove --force $wt; exit 2; }
if git -c user.email=a@b -c user.name=x cherry-pick $fix >/dev/null 2>&1; then
  git diff $fix HEAD > /tmp/$n.rebased.diff
  git -C /repo apply --check /tmp/$n.rebased.diff && cp /tmp/$n.rebased.diff $d/patch.diff && echo "$n re-based onto $fix"
else
  echo "$n: CONFLICT"; git status --short | head -5
fi
cd /; git -C /repo worktree remove --force $wt; rm -f /tmp/$n.rebased.diff
