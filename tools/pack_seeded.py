#!/venv/bin/python
"""Copy vetted sub-agent changes from /tmp/seeded-out into /verif/seeded/<id>/ (patch.diff, demo.py, meta.json)."""
import json, os, shutil, sys
SRC=sys.argv[1] if len(sys.argv)>1 else "/tmp/seeded-out"; DST="/verif/seeded"
SUFFIX=(("a","b") if len(sys.argv)<3 else tuple(sys.argv[2]))
os.makedirs(DST, exist_ok=True)
rows=[]
for p in sorted(d for d in os.listdir(SRC) if d.startswith("C") and os.path.isdir(os.path.join(SRC,d))):
    for k,suffix in ((1,SUFFIX[0]),(2,SUFFIX[1])):
        d=os.path.join(SRC,p,"change%d"%k); v=os.path.join(SRC,"vet-%s-%d.json"%(p,k))
        if not (os.path.exists(os.path.join(d,"patch.diff")) and os.path.exists(v)): continue
        s=open(v).read()
        try: vet=json.loads(s[s.index("{"):])
        except Exception: print("unreadable vet", v); continue
        ok = vet.get("demo_clean_rc")==0 and vet.get("demo_patched_rc") not in (0,None) and vet.get("tests_new_failures")==[] and vet.get("patch_applies")
        if not ok:
            print("NOT KEPT", p, k, {x:vet.get(x) for x in ("demo_clean_rc","demo_patched_rc","tests_new_failures","error")}); continue
        out=os.path.join(DST,p+suffix); os.makedirs(out, exist_ok=True)
        shutil.copy2(os.path.join(d,"patch.diff"), os.path.join(out,"patch.diff"))
        shutil.copy2(os.path.join(d,"demo.py"), os.path.join(out,"demo.py"))
        meta=json.load(open(os.path.join(d,"meta.json")))
        prev={}
        if os.path.exists(os.path.join(out,"meta.json")):
            prev=json.load(open(os.path.join(out,"meta.json")))
        meta2={"id":p+suffix,"property":p,"breaks":meta.get("summary"),"needs_to_manifest":meta.get("needs"),"files":vet.get("files"),
               "author":"independent sub-agent given only the property text and a scratch worktree",
               "confirmed_by_me":{"demo_exit_on_unchanged_tree":vet["demo_clean_rc"],"demo_exit_with_patch":vet["demo_patched_rc"],
                                  "repository_suite_with_patch":vet.get("tests_summary"),"new_test_failures":vet["tests_new_failures"],
                                  "how":"tools/vet_seeded.py in a scratch worktree of /repo (removed afterwards)"},
               "checks_run_against_it":{c:{"exit":r["rc"],"violation_keys":r["keys"][:4]} for c,r in vet.get("checks",{}).items()},
               "caught_by":vet.get("caught_by"),
               "history":prev.get("history",[])}
        json.dump(meta2,open(os.path.join(out,"meta.json"),"w"),indent=1)
        rows.append((p+suffix, vet.get("caught_by")))
for r in rows: print(r)
