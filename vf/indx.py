"""Generators and helpers shared by the INDX properties (C10, C11, C12)."""
import os
import tempfile

import numpy

from . import gen

U32 = numpy.uint32
WORD_CLASSES = {1: (0, 255), 2: (256, 65535), 4: (65536, 2 ** 32 - 1), 8: (2 ** 32, 2 ** 63 - 1)}
TMPDIR = "/dev/shm" if os.access("/dev/shm", os.W_OK) else None


def draw_in_class(rng, cls, edge_bias=0.5):
    lo, hi = WORD_CLASSES[cls]
    if rng.random() < edge_bias:
        return int(gen.pick(rng, [lo, hi, lo + 1, hi - 1]))
    return int(rng.integers(lo, hi, endpoint=True, dtype=numpy.uint64))


def rowids(rng, length, top=None, extremes=True):
    if length == 0:
        return numpy.zeros(0, dtype=U32)
    if top is None:
        top = int(gen.pick(rng, [length, 4 * length + 3, 70000, 2 ** 32 - 1]))
    top = max(top, length)
    if top <= 10 * length + 10:
        a = numpy.sort(rng.choice(top + 1, size=length, replace=False)) if top + 1 <= 2 ** 31 else None
    else:
        a = None
    if a is None:
        a = numpy.unique(rng.integers(0, top, size=length, endpoint=True, dtype=numpy.uint64))
    a = a.astype(U32)
    if extremes and rng.random() < 0.1 and len(a):
        a = numpy.unique(numpy.concatenate([a, numpy.array([2 ** 32 - 1, 0], dtype=U32)]))
    return a


def indx_case(rng, small=False, max_entries=None):
    """{"arity", "entries": [(coords, rowids array)], "common"}; coordinate and
    common magnitudes drawn from independent word-size classes."""
    arity = int(rng.integers(1, 5))
    choices = [0, 1, 2, 3, 17] + ([] if small else [300]) + ([5000] if (not small and rng.random() < 0.02) else [])
    n = int(gen.pick(rng, choices))
    if max_entries is not None:
        n = min(n, max_entries)
    ccls = int(gen.pick(rng, [1, 2, 4, 8]))       # class of the largest coordinate
    kcls = int(gen.pick(rng, [1, 2, 4, 8]))       # class of the common value
    common = draw_in_class(rng, kcls)
    keys = set()
    tries = 0
    while len(keys) < n and tries < 20 * n + 50:
        tries += 1
        coords = []
        for a in range(arity):
            cls = ccls if rng.random() < 0.3 else int(gen.pick(rng, [c for c in (1, 2, 4, 8) if c <= ccls]))
            coords.append(draw_in_class(rng, cls) if rng.random() < 0.5 else int(rng.integers(0, 6)))
        keys.add(tuple(coords))
    keys = list(keys)
    if keys and ccls > 1:
        # make sure the largest coordinate really is in class ccls
        k0 = list(keys[0])
        k0[int(rng.integers(0, arity))] = draw_in_class(rng, ccls)
        if tuple(k0) not in keys:
            keys[0] = tuple(k0)
    order = rng.permutation(len(keys))
    entries = []
    for i in order:
        r = rng.random()
        if small:
            length = int(rng.integers(0, 6))
        elif r < 0.1:
            length = 0
        elif r < 0.97 or n > 20:
            length = int(rng.integers(1, 51))
        else:
            length = int(gen.pick(rng, [1000, 100000]))
        entries.append((keys[int(i)], rowids(rng, length)))
    return {"arity": arity, "entries": entries, "common": common, "coord_class": ccls, "common_class": kcls}


def run_case(rng):
    """Entries whose row ids are dense runs arange(L) with L exactly on a word boundary and no larger
    id anywhere (the largest id is L-1): 'lengths cannot exceed the largest id' reasoning breaks here."""
    L = int(gen.pick(rng, [255, 256, 257, 65535, 65536, 65537]))
    n_other = int(rng.integers(0, 4))
    entries = [((int(rng.integers(0, 200)),), numpy.arange(L, dtype=U32))]
    for i in range(n_other):
        ln = int(rng.integers(0, 6))
        entries.append(((300 + i,), numpy.sort(rng.choice(L, size=ln, replace=False)).astype(U32)))
    order = rng.permutation(len(entries))
    return {"arity": 1, "entries": [entries[int(i)] for i in order], "common": int(rng.integers(0, 100)),
            "coord_class": 2, "common_class": 1, "run_length": L}


def tiled_case(rng):
    """Row-id arrays that are contiguous views tiling ONE base array (what a loader or numpy.split
    hands out), stored in a dict whose order differs from their order in memory."""
    n = int(rng.integers(2, 7))
    lens = [int(rng.integers(0, 9)) for _ in range(n)]
    if sum(lens) == 0:
        lens[0] = 3
    base = numpy.concatenate([numpy.sort(rng.choice(1000, size=ln, replace=False)) for ln in lens]).astype(U32)
    views, pos = [], 0
    for ln in lens:
        views.append(base[pos:pos + ln])
        pos += ln
    order = rng.permutation(n)
    entries = [((int(i) * 3 + 1, int(i) % 2), views[int(i)]) for i in order]
    return {"arity": 2, "entries": entries, "common": int(rng.integers(0, 50)), "coord_class": 1, "common_class": 1,
            "tiled": True}


def big_array_case(rng):
    """An array of at least 2^22 row ids (16 MiB) that follows smaller non-empty arrays in entry order."""
    n_small = int(rng.integers(1, 4))
    entries = [((i, 2 * i), numpy.sort(rng.choice(10 ** 6, size=int(rng.integers(1, 300)), replace=False)).astype(U32))
               for i in range(n_small)]
    entries.append(((77, 1), numpy.arange(0, 2 ** 22 + int(rng.integers(0, 9)), dtype=U32)))
    entries.append(((78, 0), numpy.array([5, 6], dtype=U32)))
    return {"arity": 2, "entries": entries, "common": 3, "coord_class": 1, "common_class": 1, "big_array": True}


def entries_dict(case):
    # (asarray keeps views as they are: a tiled case stays a set of views of one buffer)
    if case.get("numpy_scalar_keys"):
        # coordinates given as NumPy integer scalars (as they come out of arrays): same values
        # (one scalar type throughout: NumPy promotes a mix of int64 and uint64 to float64, which is the
        # caller's problem, not the file format's)
        return {tuple(numpy.int64(int(c)) for c in k): numpy.asarray(v, dtype=U32) for k, v in case["entries"]}
    return {tuple(int(c) for c in k): numpy.asarray(v, dtype=U32) for k, v in case["entries"]}


def plain_keys(ent):
    return {tuple(int(c) for c in k): v for k, v in ent.items()}


SAVE_MODES = ["wb", "w+b", "ab", "r+b", "a+b", "wb"]
SAVE_COUNT = [0]
LAST_SAVE_MODE = [None]


def save_bytes(case, path=None, entries=None):
    """Run the real IndxIO.save into a real file; return its bytes."""
    from catii.indxio import IndxIO

    fd, p = tempfile.mkstemp(prefix="vf-indx-", dir=TMPDIR)
    os.close(fd)
    try:
        # the (empty) target file is opened in every writing mode in turn - truncating, updating, appending
        mode = SAVE_MODES[SAVE_COUNT[0] % len(SAVE_MODES)]
        SAVE_COUNT[0] += 1
        LAST_SAVE_MODE[0] = mode
        with open(p, mode) as f:
            IndxIO.save(f, entries_dict(case) if entries is None else entries, int(case["common"]), numpy.dtype(U32))
        with open(p, "rb") as f:
            return f.read()
    finally:
        os.unlink(p)


_HELD = None
LATER_CHANGE = [None]     # set by load_bytes: what an earlier load's arrays say now, if they changed


def load_bytes(data):
    """Run the real IndxIO.load on a real file holding `data`; arrays are
    detached from the mapping before the file disappears."""
    from catii.indxio import IndxIO

    fd, p = tempfile.mkstemp(prefix="vf-indx-", dir=TMPDIR)
    try:
        os.write(fd, data)
        os.close(fd)
        with open(p, "rb") as f:
            entries, common, dt = IndxIO.load(f)
            out = {}
            info = {}
            for k, v in entries.items():
                info[k] = (type(v).__name__, str(getattr(v, "dtype", None)))
                out[k] = numpy.array(v)
            # the arrays the loader handed out for the PREVIOUS file are still held: what they say now is compared
            # with the copies taken then (a result must not change because another file was loaded afterwards)
            global _HELD
            prev, _HELD = _HELD, (entries, {k: v.copy() for k, v in out.items()})
            LATER_CHANGE[0] = None
            if prev is not None:
                raw, copies = prev
                for k, c in copies.items():
                    now = numpy.asarray(raw[k])
                    if now.shape != c.shape or not numpy.array_equal(now, c):
                        LATER_CHANGE[0] = "row ids loaded earlier for key %r read %r now, %r when they were returned" % (
                            k, now[:6].tolist(), c[:6].tolist())
                        break
        return out, common, dt, info
    finally:
        os.unlink(p)


def word_class(v):
    for size in (1, 2, 4, 8):
        if v < 1 << (8 * size):
            return size
    return 16


# --------------------------------------------------------------------------- #
# Twins: files judged straight after one another in the same process that look alike from outside
def same_size_twin(case, rng):
    """Same keys, same array lengths, same word sizes - hence a file of exactly the same size, opened under the
    same descriptor number - but other row ids (interior elements) and another common value of the same class."""
    entries = []
    changed = False
    for coords, ids in case["entries"]:
        ids = numpy.asarray(ids)
        if len(ids) >= 3 and int(ids[-1]) - int(ids[0]) > len(ids):
            lo, hi = int(ids[0]), int(ids[-1])
            pool = numpy.arange(lo + 1, min(hi, lo + 1 + 50 * len(ids)), dtype=numpy.int64)
            if len(pool) >= len(ids) - 2:
                inner = numpy.sort(rng.choice(pool, size=len(ids) - 2, replace=False))
                new = numpy.concatenate([[lo], inner, [hi]]).astype(U32)
                if not numpy.array_equal(new, ids):
                    changed = True
                entries.append((coords, new))
                continue
        entries.append((coords, ids.copy()))
    common = int(case["common"])
    cls = word_class(common)
    for _ in range(8):
        c2 = draw_in_class(rng, cls)
        if word_class(c2) == cls and c2 != common and all(c2 != k[0] for k, _ in entries):
            common = c2
            changed = True
            break
    if not changed:
        return None
    t = dict(case, entries=entries, common=common)
    t["twin"] = "same_size"
    return t


def reinterpreted_twins(rng):
    """Two files whose coordinate blocks are byte for byte the same under different (arity, word size): n keys of
    arity 2 over w-byte words, and the n keys of arity 1 over 2w-byte words those bytes also spell."""
    w = int(gen.pick(rng, [1, 2, 4]))
    n = int(gen.pick(rng, [1, 2, 3, 9]))
    top = 2 ** (8 * w)
    keys = set()
    while len(keys) < n:
        c0 = int(rng.integers(0, top)) if rng.random() < 0.5 else int(rng.integers(0, 4))
        # (coordinates stay below 2^63, as the property quantifies: the high half of an 8-byte word below 2^31)
        c1 = int(rng.integers(1, top if w < 4 else 2 ** 31)) if rng.random() < 0.7 else int(rng.integers(1, 4))
        keys.add((c0, c1))
    keys = list(keys)
    # the first key carries a coordinate of class w in position 0 (so the narrow file really uses w-byte words)
    # and every key has a non-zero second coordinate (so the wide file really needs 2w-byte words)
    if w > 1:
        keys[0] = (top - 1 - int(rng.integers(0, 3)), keys[0][1])
    keys = list(dict.fromkeys(keys))
    arrays = [rowids(rng, int(rng.integers(1, 6)), extremes=False) for _ in keys]
    common = int(rng.integers(0, min(top, 200)))
    narrow = {"arity": 2, "entries": list(zip(keys, arrays)), "common": common, "kind": "entries", "twin": "reinterpreted(narrow)"}
    wide_keys = [(c0 + c1 * top,) for c0, c1 in keys]
    wide = {"arity": 1, "entries": list(zip(wide_keys, [a.copy() for a in arrays])), "common": common, "kind": "entries",
            "twin": "reinterpreted(wide)"}
    return (narrow, wide) if rng.random() < 0.5 else (wide, narrow)
