"""Shared workload pieces for the sorted-set kernel properties (C08, C09)."""
import itertools

import numpy

U32 = numpy.uint32
OPS = {
    "intersect": lambda a, b: a & b,
    "union": lambda a, b: a | b,
    "difference": lambda a, b: a - b,
}


def embeddings(size, rng):
    """Order-preserving embeddings of universe {0..size-1} into uint32."""
    top = 2 ** 32 - 1
    e = {
        "identity": list(range(size)),
        "gapped": [3 + 7 * i for i in range(size)],
        "extremes": ([0, 1] + [2 ** 31 - 1 + i for i in range(size - 4)] + [top - 1, top])[:size]
        if size >= 4 else [0, top - 1, top][:size],
        "random": sorted(int(x) for x in rng.choice(2 ** 32, size=size, replace=False)),
    }
    e["extremes"] = sorted(set(e["extremes"]))
    assert all(len(v) == size for v in e.values()), e
    return e


def subsets(size):
    """All subsets of range(size) as sorted tuples, indexed by bitmask."""
    return [tuple(i for i in range(size) if m >> i & 1) for m in range(1 << size)]


def arr(values):
    return numpy.array(list(values), dtype=U32)


def is_strict_u32(x):
    return (isinstance(x, numpy.ndarray) and x.dtype == U32 and x.ndim == 1
            and (len(x) < 2 or bool(numpy.all(x[1:] > x[:-1]))))


def nontrivial_pair(sa, sb):
    return bool(sa) and bool(sb) and not (sa <= sb) and not (sb <= sa)


def overlap_class(sa, sb):
    if not sa and not sb:
        return "both_empty"
    if not sa:
        return "left_empty"
    if not sb:
        return "right_empty"
    if sa == sb:
        return "identical"
    if max(sa) < min(sb):
        return "disjoint_left_first"
    if max(sb) < min(sa):
        return "disjoint_right_first"
    if max(sa) == min(sb) or max(sb) == min(sa):
        return "touching"
    if sa < sb or sb < sa:
        return "nested"
    if not (sa & sb):
        return "interleaved_disjoint"
    return "interleaved"


def random_pair(rng, maxlen=200, universe=None):
    """Structured random pair of strictly increasing uint32 arrays."""
    kind = int(rng.integers(0, 6))
    n1 = int(rng.integers(0, maxlen + 1))
    n2 = int(rng.integers(0, maxlen + 1))
    if universe is None:
        universe = int(pickone(rng, [maxlen // 2 + 2, 4 * maxlen + 5, 2 ** 32]))
    n1, n2 = min(n1, universe), min(n2, universe)
    a = numpy.sort(rng.choice(universe, size=n1, replace=False)) if universe < 2 ** 31 else \
        numpy.unique(rng.integers(0, universe, size=n1, dtype=numpy.uint64))
    b = numpy.sort(rng.choice(universe, size=n2, replace=False)) if universe < 2 ** 31 else \
        numpy.unique(rng.integers(0, universe, size=n2, dtype=numpy.uint64))
    a = a.astype(numpy.uint64)
    b = b.astype(numpy.uint64)
    if kind == 1 and len(a):       # nested
        b = a[rng.random(len(a)) < 0.5]
    elif kind == 2 and len(a) and len(b):  # disjoint ranges
        b = b + a.max() + 1
        b = b[b < 2 ** 32]
    elif kind == 3 and len(a) and len(b):  # touching
        b = numpy.unique(numpy.concatenate([[a.max()], b + a.max()]))
        b = b[b < 2 ** 32]
    elif kind == 4:                # identical
        b = a.copy()
    elif kind == 5 and len(a):     # include the top of the range
        a = numpy.unique(numpy.concatenate([a, [2 ** 32 - 1]]))
    if rng.random() < 0.5:
        a, b = b, a
    return a.astype(U32), b.astype(U32)


def pickone(rng, seq):
    return seq[int(rng.integers(0, len(seq)))]


def presentations(values, rng):
    """Yield (label, array) presentations of the same sorted values."""
    base = arr(values)
    n = len(base)
    yield "own", base
    big = numpy.full(n + 64, 0xABABABAB, dtype=U32)
    off = 17
    big[off:off + n] = base
    yield "view_in_buffer", big[off:off + n]
    st = numpy.full(2 * n + 6, 0xCDCDCDCD, dtype=U32)
    st[3:3 + 2 * n:2] = base
    yield "strided", st[3:3 + 2 * n:2]
    ro = base.copy()
    ro.flags.writeable = False
    yield "readonly", ro
    rev = numpy.full(n + 8, 0xEFEFEFEF, dtype=U32)
    rev[4:4 + n] = base[::-1]
    yield "reversed", rev[4:4 + n][::-1]


SENTINELS = (0xABABABAB, 0xCDCDCDCD, 0xEFEFEFEF)
