#!/venv/bin/python
"""Apply each deliberate break to a scratch copy of src/catii and assert that the
expected quick checks fire (exit 1 with a VIOLATION line).

    selftest/run.py                 all mutants
    selftest/run.py name [name...]  selected mutants
    selftest/run.py --props C06 C07 only mutants expecting these properties
    selftest/run.py --also C02      additionally run these checks on every mutant (must not be *inconclusive*)
"""
import concurrent.futures
import os
import shutil
import subprocess
import sys
import tempfile

HERE = os.path.dirname(os.path.abspath(__file__))
ROOT = os.path.dirname(HERE)
sys.path.insert(0, HERE)
from mutants import MUTANTS  # noqa: E402

SRC = "/repo/src/catii"


def make_copy(name, edits):
    d = tempfile.mkdtemp(prefix="catii-mut-%s-" % name[:20], dir="/dev/shm")
    pkg = os.path.join(d, "catii")
    os.makedirs(pkg)
    for f in os.listdir(SRC):
        if f.endswith((".py", ".pyx")):
            shutil.copy2(os.path.join(SRC, f), os.path.join(pkg, f))
    for fname, old, new in edits:
        p = os.path.join(pkg, fname)
        s = open(p).read()
        if s.count(old) != 1:
            shutil.rmtree(d)
            raise SystemExit("mutant %s: pattern occurs %d times in %s" % (name, s.count(old), fname))
        open(p, "w").write(s.replace(old, new))
    return d, pkg


def run_check(prop, pkg, tier="quick"):
    env = dict(os.environ, CATII_SRC=pkg)
    r = subprocess.run([os.path.join(ROOT, "check"), prop, "--tier", tier, "--no-evidence", "--jobs", "8"],
                       env=env, capture_output=True, text=True)
    viol = [l for l in r.stdout.splitlines() if l.startswith("VIOLATION")]
    keys = sorted({l.strip()[4:] for l in r.stdout.splitlines() if l.strip().startswith("key=")})
    return r.returncode, len(viol), keys, r.stdout


def main(argv):
    names, props, also = [], None, []
    it = iter(argv)
    mode = "names"
    for a in it:
        if a == "--props":
            mode = "props"
            props = []
        elif a == "--also":
            mode = "also"
        elif mode == "props":
            props.append(a)
        elif mode == "also":
            also.append(a)
        else:
            names.append(a)
    todo = names or list(MUTANTS)
    if props:
        todo = [n for n in todo if set(MUTANTS[n][0]) & set(props)]
    failed = []

    def one(name):
        expect, edits = MUTANTS[name]
        d, pkg = make_copy(name, edits)
        out = []
        try:
            for prop in expect + [p for p in also if p not in expect]:
                rc, nv, keys, stdout = run_check(prop, pkg)
                ok = (rc == 1 and nv > 0) if prop in expect else True
                out.append((prop, rc, nv, keys[:3], ok, prop in expect))
        finally:
            shutil.rmtree(d, ignore_errors=True)
        return name, out

    with concurrent.futures.ThreadPoolExecutor(max_workers=3) as ex:
        for name, out in ex.map(one, todo):
            for prop, rc, nv, keys, ok, expected in out:
                tag = "CAUGHT" if (expected and ok) else ("MISSED" if expected else ("fires" if rc == 1 else "silent"))
                print("%-48s %-4s %-7s rc=%s violations=%d %s" % (name, prop, tag, rc, nv, keys))
                if expected and not ok:
                    failed.append((name, prop))
    # clean the replay files the mutants produced
    shutil.rmtree(os.path.join(ROOT, "replay"), ignore_errors=True)
    if failed:
        print("MISSED: %r" % failed)
        return 1
    print("all %d mutants caught" % len(todo))
    return 0


if __name__ == "__main__":
    sys.exit(main(sys.argv[1:]))
