"""Parent side of a check: builds the shadow package(s) from the working tree,
runs the shards in subprocesses, merges their observations, applies the
known-findings file, writes the evidence file and prints the verdict.

Exit codes: 0 held on what was observed; 1 violation (VIOLATION line);
2 inconclusive (INCONCLUSIVE line; never a VIOLATION line, never exit 0).
"""
import argparse
import concurrent.futures
import json
import os
import re
import shutil
import signal
import subprocess
import sys
import tempfile
import time

from . import PYTHON, VERIF_ROOT, catii_src
from .build import Shadow

EVIDENCE_DIR = os.path.join(VERIF_ROOT, "evidence")
REPLAY_DIR = os.path.join(VERIF_ROOT, "replay")
KNOWN = os.path.join(VERIF_ROOT, "known_findings.json")


def load_known(prop):
    try:
        with open(KNOWN) as f:
            data = json.load(f)
    except FileNotFoundError:
        return []
    return [e for e in data.get("findings", []) if e.get("property") == prop and e.get("status") == "open"]


def run_worker(args, env, timeout, stderr_path):
    """One worker in a session of its own; whatever it leaves behind (the sanitizer runtime starts an
    llvm-symbolizer child that outlives it) is killed with the session when the worker is done."""
    t0 = time.time()
    with open(stderr_path, "wb") as err:
        p = subprocess.Popen([PYTHON, "-X", "faulthandler", "-m", "vf.worker"] + args, env=env,
                             stdout=subprocess.PIPE, stderr=err, cwd=VERIF_ROOT, start_new_session=True)
        try:
            out, _ = p.communicate(timeout=timeout)
            return p.returncode, out.decode("utf-8", "replace"), time.time() - t0, False
        except subprocess.TimeoutExpired:
            kill_session(p.pid)
            out, _ = p.communicate()
            return None, (out or b"").decode("utf-8", "replace"), time.time() - t0, True
        finally:
            kill_session(p.pid)


def kill_session(pgid):
    try:
        os.killpg(pgid, signal.SIGKILL)
    except (ProcessLookupError, PermissionError):
        pass


def tail(path, n=3000):
    try:
        with open(path, "rb") as f:
            data = f.read()
        return data[-n:].decode("utf-8", "replace")
    except OSError:
        return ""


def main(argv=None):
    ap = argparse.ArgumentParser(prog="check")
    ap.add_argument("prop")
    ap.add_argument("--tier", default=os.environ.get("VERIF_TIER") or "quick", choices=["quick", "thorough"])
    ap.add_argument("--seed", type=int, default=None)
    ap.add_argument("--replay", default=None)
    ap.add_argument("--jobs", type=int, default=int(os.environ.get("VERIF_JOBS", "16")))
    ap.add_argument("--shard", type=int, default=None, help="run only this shard (debugging)")
    ap.add_argument("--no-evidence", action="store_true")
    a = ap.parse_args(argv)
    prop = a.prop.upper()
    seed = a.seed if a.seed is not None else int(os.environ.get("VERIF_SEED", "0") or 0)
    t0 = time.time()

    work = tempfile.mkdtemp(prefix="catii-vf-run-",
                            dir="/dev/shm" if os.access("/dev/shm", os.W_OK) else None)
    shadows = {}

    def shadow(variant):
        if variant not in shadows:
            shadows[variant] = Shadow(variant)
        return shadows[variant]

    try:
        try:
            sh = shadow("plain")
        except Exception as e:  # the tree does not build: nothing can be observed
            print("INCONCLUSIVE property=%s reason=build failed: %s" % (prop, str(e)[-1500:]))
            return 2

        if a.replay:
            return do_replay(prop, a.replay, shadow, work)

        rc, out, _, _ = run_worker(["plan", prop, a.tier], sh.env(), 120, os.path.join(work, "plan.err"))
        m = re.search(r"^PLAN (.*)$", out, re.M)
        if rc != 0 or not m:
            print("INCONCLUSIVE property=%s reason=plan failed: %s" % (prop, tail(os.path.join(work, "plan.err"))))
            return 2
        plan = json.loads(m.group(1))
        meta, shards = plan["meta"], plan["shards"]
        indices = list(range(len(shards))) if a.shard is None else [a.shard]
        for i in indices:
            try:
                shadow(shards[i].get("variant", "plain"))
            except Exception as e:
                print("INCONCLUSIVE property=%s reason=build failed (%s): %s"
                      % (prop, shards[i].get("variant"), str(e)[-1500:]))
                return 2

        default_timeout = 1500 if a.tier == "quick" else 7200

        def one(i):
            s = shards[i]
            out = os.path.join(work, "shard%d.json" % i)
            err = os.path.join(work, "shard%d.err" % i)
            env = shadow(s.get("variant", "plain")).env(s.get("env"))
            rc, _, wall, timed_out = run_worker(
                ["run", prop, a.tier, str(seed), str(i), out], env,
                s.get("timeout_s", default_timeout), err)
            res = None
            if os.path.exists(out):
                with open(out) as f:
                    res = json.load(f)
            inflight = None
            if os.path.exists(out + ".inflight"):
                try:
                    with open(out + ".inflight") as f:
                        inflight = json.load(f)
                except Exception:
                    inflight = None
            return i, rc, wall, timed_out, res, inflight, tail(err, 6000)

        results = []
        with concurrent.futures.ThreadPoolExecutor(max_workers=max(1, a.jobs)) as ex:
            for r in ex.map(one, indices):
                results.append(r)

        return conclude(prop, a.tier, seed, meta, shards, results, t0, write_evidence=not a.no_evidence)
    finally:
        for s in shadows.values():
            s.close()
        shutil.rmtree(work, ignore_errors=True)


def conclude(prop, tier, seed, meta, shards, results, t0, write_evidence=True):
    evaluations = 0
    nt = set()
    counters = {}
    samples = []
    violations = []
    inconclusive = []
    notes = []
    extra = {}
    per_shard = []
    for i, rc, wall, timed_out, res, inflight, errtail in results:
        s = shards[i]
        label = s.get("label", "shard%d" % i)
        if res is None:
            if timed_out:
                inconclusive.append("%s: watchdog fired after %.0fs" % (label, wall))
            elif rc == -9:
                # SIGKILL never comes from the code under test (a wild access gives SIGSEGV/SIGBUS, an abort SIGABRT):
                # it is the kernel's out-of-memory killer or an outside kill - no verdict, never a violation
                inconclusive.append("%s: worker was killed (SIGKILL: out-of-memory killer or external kill), no verdict" % label)
            elif inflight is not None and s.get("crash_is_violation"):
                violations.append({"shard_index": i, "key": "crash:rc=%s" % rc,
                                   "message": "worker died (rc=%s) while executing a library call\n%s"
                                   % (rc, errtail[-1500:]), "case": inflight})
            else:
                inconclusive.append("%s: worker died rc=%s without a verdict: %s" % (label, rc, errtail[-800:]))
            per_shard.append({"label": label, "wall_s": round(wall, 1), "died": True})
            continue
        evaluations += res["evaluations"]
        nt.update(res["nt"])
        for k, v in res["counters"].items():
            counters[k] = counters.get(k, 0) + v
        for smp in res["samples"]:
            if len(samples) < 6:
                samples.append(smp)
        for v in res["violations"]:
            v["shard_index"] = i
            violations.append(v)
        inconclusive.extend("%s: %s" % (label, x) for x in res["inconclusive"])
        for n in res["notes"]:
            if n not in notes:
                notes.append(n)
        for k, v in res.get("extra", {}).items():
            if isinstance(v, (int, float)) and not isinstance(v, bool):
                extra[k] = extra.get(k, 0) + v
            elif isinstance(v, list):
                extra.setdefault(k, [])
                extra[k] = (extra[k] + v)[:40]
            elif isinstance(v, dict):
                d = extra.setdefault(k, {})
                for kk, vv in v.items():
                    d[kk] = d.get(kk, 0) + vv if isinstance(vv, (int, float)) else vv
            else:
                extra[k] = v
        per_shard.append({"label": label, "wall_s": round(res["wall_s"], 1),
                          "evaluations": res["evaluations"]})

    # monitors / classes that must have been reached
    for req in meta.get("require", {}).get(tier, []):
        if counters.get(req, 0) <= 0 and (len(results) == len(shards)):
            inconclusive.append("required observation never made: %s" % req)
    if evaluations == 0:
        inconclusive.append("no evaluations")

    # known findings
    known = load_known(prop)
    known_hits = {}
    fresh = []
    for v in violations:
        hit = None
        for e in known:
            if re.search(e["key"], v["key"]):
                hit = e
                break
        if hit is not None:
            known_hits.setdefault(hit["key"], [hit, 0])[1] += 1
        else:
            fresh.append(v)

    replay_paths = []
    if fresh:
        os.makedirs(REPLAY_DIR, exist_ok=True)
        seen_keys = {}
        for n, v in enumerate(fresh):
            if seen_keys.get(v["key"], 0) >= 3:
                continue
            seen_keys[v["key"]] = seen_keys.get(v["key"], 0) + 1
            path = os.path.join(REPLAY_DIR, "%s-%s-%d-%d-%d.json" % (prop, tier, seed, v["shard_index"], n))
            with open(path, "w") as f:
                json.dump({"property": prop, "tier": tier, "seed": seed, "shard_index": v["shard_index"],
                           "shard": shards[v["shard_index"]], "key": v["key"], "message": v["message"],
                           "case": v["case"]}, f, indent=1)
            replay_paths.append((v, path))

    wall = time.time() - t0
    distinct_nt = len(nt)
    coverage = {
        "evaluations": evaluations,
        "distinct_nontrivial": distinct_nt,
        "rule": meta.get("rule", ""),
        "samples": samples,
        "counters": dict(sorted(counters.items())),
        "shards": per_shard,
    }
    if meta.get("exhaustive", {}).get(tier):
        coverage["exhaustive"] = True
        coverage["exhaustive_over"] = meta["exhaustive"][tier]
    if extra:
        coverage["observed"] = extra
    if notes:
        coverage["notes"] = notes
    if known_hits:
        coverage["known_findings_observed"] = {k: n for k, (e, n) in known_hits.items()}
    verdict = "violated" if fresh else ("inconclusive" if inconclusive else "held_on_observed")
    coverage["verdict"] = verdict
    if inconclusive:
        coverage["inconclusive_reasons"] = inconclusive[:10]
    if fresh:
        coverage["violation_keys"] = sorted({v["key"] for v in fresh})[:20]
    evidence = {
        "property_id": prop,
        "tier": tier,
        "seed": seed,
        "level": meta.get("level", "exploration"),
        "coverage": coverage,
        "assumptions": meta.get("assumptions", []) + [
            "sources under test: %s (shadow copy, kernel compiled from the working-tree .pyx)" % catii_src()],
        "wall_s": round(wall, 2),
        "violations": len(fresh),
    }
    if write_evidence:
        os.makedirs(EVIDENCE_DIR, exist_ok=True)
        path = os.path.join(EVIDENCE_DIR, prop + ".json")
        with open(path + ".tmp", "w") as f:
            json.dump(evidence, f, indent=1, default=repr)
        os.replace(path + ".tmp", path)

    print("%s tier=%s seed=%d evaluations=%d distinct_nontrivial=%d wall=%.1fs verdict=%s"
          % (prop, tier, seed, evaluations, distinct_nt, wall, verdict))
    interesting = {k: v for k, v in sorted(counters.items())}
    print("observed: " + json.dumps(interesting)[:3000])
    for key, (e, n) in known_hits.items():
        print("KNOWN-FINDING: property=%s %s (observed %d times)" % (prop, e.get("what", key), n))
    if fresh:
        for v, path in replay_paths:
            print("VIOLATION property=%s replay=%s" % (prop, path))
            print("  key=%s\n  %s" % (v["key"], v["message"].replace("\n", "\n  ")[:1200]))
        if len(fresh) > len(replay_paths):
            print("  (+%d further violations with the same keys)" % (len(fresh) - len(replay_paths)))
        return 1
    if inconclusive:
        for r in inconclusive[:10]:
            print("INCONCLUSIVE property=%s reason=%s" % (prop, r.replace("\n", " | ")[:1500]))
        return 2
    return 0


def do_replay(prop, path, shadow, work):
    with open(path) as f:
        rp = json.load(f)
    variant = rp.get("shard", {}).get("variant", "plain")
    out = os.path.join(work, "replay.json")
    err = os.path.join(work, "replay.err")
    env = shadow(variant).env(rp.get("shard", {}).get("env"))
    rc, _, wall, timed_out = run_worker(["replay", prop, os.path.abspath(path), out], env, 3600, err)
    if not os.path.exists(out):
        if rc == -9:
            print("INCONCLUSIVE property=%s reason=replay worker was killed (SIGKILL: out-of-memory killer or external kill)" % prop)
            return 2
        if rp.get("shard", {}).get("crash_is_violation") and os.path.exists(out + ".inflight"):
            print("VIOLATION property=%s replay=%s" % (prop, path))
            print("  worker died again rc=%s\n%s" % (rc, tail(err, 1500)))
            return 1
        print("INCONCLUSIVE property=%s reason=replay worker died rc=%s %s" % (prop, rc, tail(err, 1500)))
        return 2
    with open(out) as f:
        res = json.load(f)
    if res["violations"]:
        for v in res["violations"]:
            print("VIOLATION property=%s replay=%s" % (prop, path))
            print("  key=%s\n  %s" % (v["key"], v["message"].replace("\n", "\n  ")[:3000]))
        return 1
    if res["inconclusive"]:
        print("INCONCLUSIVE property=%s reason=%s" % (prop, res["inconclusive"][0][:2000]))
        return 2
    print("%s replay: no violation reproduced" % prop)
    return 0


if __name__ == "__main__":
    try:
        rc = main()
        sys.stdout.flush()
    except BrokenPipeError:
        # stdout was closed by the reader (e.g. `| head`); the verdict is in the exit code
        try:
            sys.stdout = open(os.devnull, "w")
        except OSError:
            pass
        rc = 3
    sys.exit(rc)
