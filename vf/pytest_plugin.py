"""pytest plugin: run the repository's own tests as an additional *workload* under
the monitors of a property (only the monitors' verdicts count, never the tests'
outcomes).  Selected with VF_PLUGIN_PROP in {C08, C17, C19}; results are written
as JSON to VF_PLUGIN_OUT at session end."""
import functools
import json
import os

import numpy

from . import monitors, util

STATE = {"counters": {}, "violations": [], "evals": 0, "nt": set()}


class MiniCtx:
    """The subset of the worker Ctx API the judge functions use."""

    def __init__(self):
        self.counters = STATE["counters"]
        self.extra = {}
        self.current_test = None

    def count(self, key, n=1):
        self.counters[key] = self.counters.get(key, 0) + n

    def evaluation(self, case, nontrivial, n=1):
        STATE["evals"] += n
        if nontrivial:
            STATE["nt"].add(case if isinstance(case, str) else util.case_hash(case))

    def violation(self, key, message, case):
        self.count("violations")
        if len(STATE["violations"]) < 30:
            STATE["violations"].append({"key": "repotests:" + key, "message": "[%s] %s" % (self.current_test, str(message)[:1500]),
                                        "case": util.to_jsonable({"test": self.current_test, "case": case})})

    def sample(self, *a, **k):
        pass

    def note(self, *a):
        pass

    def full(self):
        return False


CTX = MiniCtx()


def install_c08():
    import catii.set_operations as so
    from . import kernels as K
    from .props import c08

    def make(name, opname, allow_none):
        def factory(orig, patch):
            def wrapper(left, right, *a, **kw):
                res = orig(left, right, *a, **kw)
                CTX.count("insitu_kernel_calls")
                if left is None or right is None:
                    return res
                la, ra = numpy.asarray(left), numpy.asarray(right)
                if not (K.is_strict_u32(la) and K.is_strict_u32(ra)):
                    CTX.count("insitu_precondition_violated_skipped")
                    return res
                sa, sb = set(la.tolist()), set(ra.tolist())
                CTX.evaluation(("rt", name, la.tobytes(), ra.tobytes()), K.nontrivial_pair(sa, sb))
                c08.check_result(CTX, "insitu:" + name, res, K.OPS[opname](sa, sb),
                                 {"api": "kernel" if "merge" in name else "wrapper", "op": opname, "a": la, "b": ra},
                                 allow_none_for_empty=allow_none)
                return res
            return wrapper
        return factory

    for fn, name, op, none in ((so.set_intersect_merge_np, "set_intersect_merge_np", "intersect", False),
                               (so.set_union_merge_np, "set_union_merge_np", "union", False),
                               (so.set_difference_merge_np, "set_difference_merge_np", "difference", False),
                               (so.union, "union", "union", True), (so.intersection, "intersection", "intersect", True),
                               (so.difference, "difference", "difference", True)):
        monitors.patch_everywhere(fn, make(name, op, none))


def install_c19():
    import catii.iindexes as ii
    from .props import c19

    def make(orig, patch):
        def wrapper(*args, **kw):
            if kw:
                args = args + tuple(kw[k] for k in ("maxval", "minval") if k in kw)
            res = orig(*args)
            try:
                ok = all(isinstance(a, (int, numpy.integer)) for a in args)
            except Exception:
                ok = False
            if ok:
                c19.judge_call(CTX, tuple(int(a) for a in args), res, "insitu")
                CTX.count("insitu_calls")
            return res
        return wrapper

    monitors.patch_everywhere(ii.fit_dtype, make)


def install_c17():
    import catii
    import catii.ffuncs as ff
    import catii.iindexes as ii
    import catii.xfuncs as xf

    def wrap(owner, name, label, include_self=True):
        orig = owner.__dict__.get(name)
        if orig is None:
            return
        raw = orig.__func__ if isinstance(orig, (staticmethod, classmethod)) else orig

        @functools.wraps(raw)
        def wrapper(*args, **kwargs):
            watched = args if include_self else args[1:]
            snaps = [monitors.snapshot(a) for a in watched] + [monitors.snapshot(v) for v in kwargs.values()]
            # a cube's dimensions are arguments of every cube method
            extra = getattr(args[0], "dims", None) if args and not include_self else None
            esnap = monitors.snapshot(extra) if extra is not None else None
            res = raw(*args, **kwargs)
            CTX.count("calls:" + label.split(".")[0])
            CTX.evaluation("c17:%s:%d" % (label, STATE["evals"]), True)
            after = [monitors.snapshot(a) for a in watched] + [monitors.snapshot(v) for v in kwargs.values()]
            for i, (a, b) in enumerate(zip(snaps, after)):
                d = monitors.snapshot_diff(a, b, "arg%d" % i)
                if d:
                    CTX.violation("argument-mutated:" + label, "%s changed an argument: %s" % (label, d), {"call": label})
                    break
            if esnap is not None:
                d = monitors.snapshot_diff(esnap, monitors.snapshot(extra), "dims")
                if d:
                    CTX.violation("argument-mutated:%s:dims" % label, "%s changed the cube's dimensions: %s" % (label, d), {"call": label})
            return res

        if isinstance(orig, staticmethod):
            setattr(owner, name, staticmethod(wrapper))
        elif isinstance(orig, classmethod):
            return
        else:
            setattr(owner, name, wrapper)

    for cls in (catii.ccube, catii.xcube):
        wrap(cls, "__init__", cls.__name__ + ".__init__", include_self=False)
        for name in ("count", "valid_count", "sum", "mean", "stddev", "quantile", "max", "min", "corrcoef", "covariance",
                     "calculate", "walk", "interactions"):
            wrap(cls, name, "%s.%s" % (cls.__name__, name), include_self=False)
    for mod in (ff, xf):
        for cname, cls in list(vars(mod).items()):
            if isinstance(cls, type) and cname.startswith(("ffunc_", "xfunc_")):
                wrap(cls, "__init__", cname + ".__init__", include_self=False)
    for name in ("to_array", "to_dict", "get", "common_rowids", "collapsed", "copy", "filtered", "sliced", "reindexed",
                 "validate", "__eq__"):
        wrap(ii.iindex, name, "iindex." + name, include_self=True)
    orig_cs = ii.column_stack

    def make(orig, patch):
        @functools.wraps(orig)
        def wrapper(iindexes, *a, **kw):
            snaps = [monitors.snapshot(x) for x in iindexes]
            res = orig(iindexes, *a, **kw)
            CTX.count("calls:column_stack")
            for i, (s, x) in enumerate(zip(snaps, iindexes)):
                d = monitors.snapshot_diff(s, monitors.snapshot(x), "iindexes[%d]" % i)
                if d:
                    CTX.violation("argument-mutated:column_stack", "column_stack changed an input: %s" % d, {"call": "column_stack"})
                    break
            return res
        return wrapper

    monitors.patch_everywhere(orig_cs, make)


def pytest_configure(config):
    prop = os.environ.get("VF_PLUGIN_PROP")
    import catii  # noqa: F401  (must be the shadow package)
    import catii.ccubes  # noqa: F401
    import catii.indxio  # noqa: F401
    import catii.xcubes  # noqa: F401

    STATE["catii_file"] = catii.__file__
    if prop == "C08":
        install_c08()
    elif prop == "C19":
        install_c19()
    elif prop == "C17":
        install_c17()


def pytest_runtest_setup(item):
    CTX.current_test = item.nodeid


def pytest_sessionfinish(session, exitstatus):
    out = os.environ.get("VF_PLUGIN_OUT")
    if out:
        with open(out, "w") as f:
            json.dump({"counters": STATE["counters"], "violations": STATE["violations"], "evals": STATE["evals"],
                       "nt": sorted(STATE["nt"]), "catii_file": STATE.get("catii_file"),
                       "tests_collected": session.testscollected}, f)
