#!/bin/sh
# tools/seeds.sh <tier> <seed>...: sweep all checks for each seed
tier=$1; shift
for s in "$@"; do "$(dirname "$0")/sweep.sh" $tier $s; done
