"""C19 - chosen integer dtypes are wide enough and no wider.

Oracle: numpy.iinfo over the eight integer dtypes + an actual store/load.
Workload: exhaustive over the threshold partition; random pairs; in situ (the
library's own calls of fit_dtype during to_array / collapsed / INDX save)."""
import itertools
import tempfile

import sys
import numpy

from .. import monitors

SIGNED = [numpy.int8, numpy.int16, numpy.int32, numpy.int64]
UNSIGNED = [numpy.uint8, numpy.uint16, numpy.uint32, numpy.uint64]
THRESHOLDS = sorted({s * 2 ** k for k in (7, 8, 15, 16, 31, 32, 63, 64) for s in (1, -1)})

META = {
    "level": "exploration",
    "rule": ("(max,min) pairs: every pair from P x P', P={0} u {2^k-1,2^k,2^k+1: k=0..64} and negatives, restricted to pairs some NumPy integer dtype holds, plus the one-argument negative form; random pairs (thorough); in-situ calls made by to_array/collapsed/IndxIO.save, whose consequences (dense output, collapsed output, INDX coordinate words) are checked for wrap-around AND narrowness as well (dense-output dtype against the values written: wide indexes, indexes without entries, fully explicit indexes, mappings not listing the common value; the word-size byte of saved files). Non-trivial: max or min within 1 of +-2^7,2^8,+-2^15,2^16,+-2^31,2^32,+-2^63,2^64; distinct by (max,min,form)"),
    "require": {"quick": ["pairs_partition", "consequence:indx_words_checked",
                          "consequence:collapsed_output_checked", "consequence:to_array_after_in_place_code_change",
                          "consequence:collapsed_over_255..257_columns", "consequence:dense_output_dtype_checked:columns>256",
                          "consequence:mapped_dense_output_dtype_checked:common_not_in_mapping",
                          "consequence:dense_output_dtype_of_an_index_without_entries"],
                "thorough": ["pairs_partition", "pairs_random", "consequence:indx_words_checked",
                             "consequence:collapsed_output_checked"]},
    "exhaustive": {"quick": "threshold partition P x P' of the (max,min) plane (all powers of two +-1, k=0..64)",
                   "thorough": "threshold partition P x P' of the (max,min) plane (all powers of two +-1, k=0..64)"},
    "assumptions": ["numpy.iinfo is the ground truth for what an integer dtype can hold",
                    "domain: min <= 0 or the legacy one-argument negative form; min <= max; [min,max] inside some NumPy integer dtype"],
}
META["rule"] += '; round 7: the dtype of the per-row output array collapsed() fills, observed at its numpy.full call, precedence given as list, tuple, int64/int32/uint64 ndarray'
# (the collapsed-output probe is an extra observation point inside one method: when a refactoring moves the allocation
# elsewhere the probe sees nothing, which is counted ("collapsed_output_array_not_observed") but decides nothing)


def shards(tier):
    out = [{"label": "partition", "kind": "partition"}, {"label": "insitu", "kind": "insitu", "n": 400, "crash_is_violation": True}]
    if tier == "quick":
        out += [{"label": "repotests", "kind": "repotests"}]
    if tier == "thorough":
        out += [{"label": "random%d" % i, "kind": "random", "n": 250000} for i in range(4)]
        out += [{"label": "insitu%d" % i, "kind": "insitu", "n": 4000, "crash_is_violation": True} for i in range(2)]
        out += [{"label": "repotests", "kind": "repotests", "timeout_s": 3600}]
    return out


def expected(lo, hi):
    """Narrowest dtype of the right signedness containing [lo, hi], or None."""
    cands = SIGNED if lo < 0 else UNSIGNED
    for dt in cands:
        ii = numpy.iinfo(dt)
        if ii.min <= lo and hi <= ii.max:
            return numpy.dtype(dt)
    return None


def near_threshold(*vals):
    return any(abs(v - t) <= 1 for v in vals for t in THRESHOLDS)


def judge_call(ctx, args, result, origin):
    """args as passed to fit_dtype; result the dtype returned."""
    if len(args) == 1:
        maxval, minval = args[0], 0
    else:
        maxval, minval = args
    maxval, minval = int(maxval), int(minval)
    if maxval < 0 and minval == 0:
        lo, hi = maxval, maxval  # legacy one-argument negative form
    else:
        lo, hi = min(minval, maxval), maxval
        if minval > maxval:
            ctx.count("skipped_min_gt_max")
            return
    exp = expected(lo, hi)
    if exp is None:
        ctx.count("skipped_unrepresentable")
        return
    case = {"args": list(args), "origin": origin}
    nontrivial = near_threshold(lo, hi)
    ctx.evaluation(("fit", tuple(args)), nontrivial)
    ctx.count("pairs_" + origin)
    try:
        got = numpy.dtype(result)
    except Exception:
        ctx.violation("not-a-dtype", "fit_dtype%r returned %r" % (tuple(args), result), case)
        return
    sig = "signed" if lo < 0 else "unsigned"
    if got != exp:
        if got.kind not in "iu":
            why = "non-integer"
        elif (got.kind == "i") != (lo < 0):
            why = "wrong-signedness"
        elif got.itemsize < exp.itemsize:
            why = "too-narrow"
        else:
            why = "too-wide"
        ctx.violation("%s:%s:%d->%d" % (why, sig, exp.itemsize, got.itemsize),
                      "fit_dtype%r returned %s, the narrowest %s dtype holding [%d, %d] is %s"
                      % (tuple(args), got, sig, lo, hi, exp), case)
        return
    # store / load without wrap-around
    arr = numpy.array([lo, hi], dtype=object).astype(got)
    if [int(x) for x in arr.tolist()] != [lo, hi]:
        ctx.violation("wraps:" + sig, "storing [%d,%d] in %s gives %r" % (lo, hi, got, arr.tolist()), case)


def partition_points():
    P = {0}
    for k in range(65):
        P.update({2 ** k - 1, 2 ** k, 2 ** k + 1})
    return sorted(P)


def run_shard(ctx):
    from catii import iindexes

    kind = ctx.shard["kind"]
    fit = iindexes.fit_dtype
    if kind == "partition":
        P = partition_points()
        maxes = sorted(set(P) | {-p for p in P})
        mins = sorted({-p for p in P} | {0})
        n = 0
        for mx, mn in itertools.product(maxes, mins):
            if mn > mx and not (mx < 0 and mn == 0):
                continue
            n += 1
            judge_call(ctx, (mx, mn), fit(mx, mn), "partition")
            if n % 9973 == 0:
                ctx.sample({"fit_dtype": [mx, mn], "returned": str(fit(mx, mn))})
        for mx in maxes:
            judge_call(ctx, (mx,), fit(mx), "partition")
        ctx.sample({"fit_dtype": [2 ** 31, -1], "returned": str(fit(2 ** 31, -1))})
        ctx.sample({"fit_dtype": [127, -129], "returned": str(fit(127, -129))})
    elif kind == "random":
        rng = ctx.rng
        for _ in range(ctx.shard["n"]):
            # magnitudes log-uniform, jittered around powers of two
            def draw(neg_ok):
                k = int(rng.integers(0, 65))
                v = 2 ** k + int(rng.integers(-3, 4)) if rng.random() < 0.5 else \
                    ((int(rng.integers(0, 2 ** 32)) << 33) | int(rng.integers(0, 2 ** 33))) % (2 ** k + 1)
                v = max(v, 0)
                if neg_ok and rng.random() < 0.5:
                    v = -v
                return v
            mx = draw(True)
            mn = -abs(draw(False)) if rng.random() < 0.7 else 0
            if mn > mx and not (mx < 0 and mn == 0):
                mn = mx
            judge_call(ctx, (mx, mn), fit(mx, mn), "random")
            if ctx.full():
                break
        ctx.sample({"fit_dtype": [mx, mn], "returned": str(fit(mx, mn))})
    elif kind == "insitu":
        insitu(ctx, ctx.shard["n"])
    elif kind == "repotests":
        from .. import repotests

        repotests.run(ctx, "C19")


def insitu(ctx, n):
    """Judge every call of fit_dtype the library itself makes."""
    import catii.iindexes as ii
    import catii.indxio as io_
    from ..gen import dense_to_index

    def make(orig, patch):
        def wrapper(*args, **kw):
            patch.calls += 1
            if kw:
                args = args + tuple(kw[k] for k in ("maxval", "minval") if k in kw)
            res = orig(*args)
            judge_call(ctx, args, res, "insitu")
            ctx.count("insitu_calls")
            return res
        return wrapper

    patch = monitors.patch_everywhere(ii.fit_dtype, make)
    ctx.extra["fit_dtype_binding_sites_patched"] = len(patch.sites)
    try:
        rng = ctx.rng
        bounds = [0, 1, 127, 128, 255, 256, 32767, 32768, 65535, 65536, 2 ** 31 - 1, 2 ** 31, 2 ** 32 - 1,
                  2 ** 32, 2 ** 62, 2 ** 63 - 1]
        for i in range(n):
            k = int(rng.integers(1, 5))
            vals = [int(bounds[int(rng.integers(0, len(bounds)))]) + int(rng.integers(-1, 2)) for _ in range(k)]
            vals = [min(max(v, 0), 2 ** 63 - 1) for v in vals]
            signed = rng.random() < 0.4
            if signed:
                vals = [(-v - int(rng.integers(0, 2))) if rng.random() < 0.5 else v for v in vals]
                vals = [max(v, -2 ** 63) for v in vals]
            rows = int(rng.integers(1, 8))
            a = numpy.array([vals[int(rng.integers(0, k))] for _ in range(rows * 2)], dtype=numpy.int64)
            a2 = a.reshape(rows, 2)
            idx = dense_to_index(a2, int(a2[0, 0]))
            try:
                # (a dtype too narrow for what is stored in it can also crash the interpreter in the code that
                # indexes with the wrapped values: the workload array in flight is then the witness)
                ctx.inflight({"a": a2, "values": vals})
                insitu_one(ctx, rng, i, k, idx, a2, vals, signed, io_)
                ctx.inflight(None)
            except OverflowError as e:
                # a value that does not fit the dtype the library chose for it
                ctx.violation("insitu:overflow", "the dtype chosen by the library cannot hold a value it must store: %s" % e,
                              {"a": a2, "values": vals})
            except Exception:
                # anything else is another property's business; the calls made so far were judged
                ctx.count("insitu_workload_raised(not judged here)")
            if ctx.full():
                break
        ctx.inflight(None)
        ctx.sample({"insitu_values": vals, "signed": bool(signed)})
    finally:
        patch.undo()
    ctx.extra["insitu_wrapper_calls"] = patch.calls


def collapse_many_columns(ctx, rng):
    """collapsed() over exactly 255 / 256 / 257 (rarely 65536) columns: its per-row counter must hold
    the number of columns."""
    ncols = int(rng.choice([255, 256, 257, 256, 65536] if rng.random() < 0.1 else [255, 256, 257, 256]))
    prec = [1, 0, 2] if rng.random() < 0.5 else [1, 0, 3, 2]
    collapse_many_columns_case(ctx, ncols, prec)


def collapse_many_columns_case(ctx, ncols, prec):
    from ..gen import dense_to_index

    nrows = 4
    m = numpy.zeros((nrows, ncols), dtype=numpy.int64)
    m[0, :] = 2                        # every column holds a non-common value ranking below the common one
    m[1, : ncols // 2] = 1
    m[2, 3] = 2
    m[3, :] = 1
    m[3, 0] = 2
    idx = dense_to_index(m, 0)
    got = idx.collapsed(list(prec)).to_array(dtype=numpy.int64).tolist()
    want = []
    for r in range(nrows):
        rowvals = set(m[r].tolist())
        want.append(next((p for p in prec if p in rowvals), prec[-1]))
    ctx.count("consequence:collapsed_over_%s_columns" % ("65536" if ncols == 65536 else "255..257"))
    if got != want:
        ctx.violation("insitu:collapsed-counter-wrapped:ncols=%d" % ncols,
                      "collapsed(%r) over %d columns gives %r, expected %r" % (prec, ncols, got, want),
                      {"kind": "collapse_many_columns", "ncols": ncols, "precedence": list(prec)})


def dense_output_dtype(ctx, rng):
    """The dtype of the dense output is chosen from the values that must be stored - the stored codes and the
    common value (mapped, when a mapping is given; 0 fills a common value the mapping does not list) - and from
    nothing else: not from column numbers, row counts or codes that are never written."""
    codes_cls = [[0, 1, 2], [0, 1, 255], [-1, 0, 1], [0, 3, 256], [0, 200, 65535], [-128, 0, 127], [0, 1, 2 ** 32 - 1]]
    codes = [int(v) for v in codes_cls[int(rng.integers(0, len(codes_cls)))]]
    ncols = int(rng.choice([1, 2, 129, 256, 257, 300, 40000, 65537]))
    nrows = int(rng.choice([2, 3, 300])) if ncols <= 300 else 2
    # a sparse (nrows, ncols) index built directly: codes in a few cells of the first, a middle and the LAST column
    common = codes[int(rng.integers(0, len(codes)))]
    entries = {}
    cols = sorted({0, ncols // 2, ncols - 1})
    if rng.random() < 0.25:
        # nothing listed at all: a constant column / a filtered-away index / zero rows - only the common value is stored
        cols = []
        common = int(rng.choice([0, 1, 255, 256, 65535, 65536, -1, -129, 2 ** 32, 2 ** 63 - 1]))
        nrows = int(rng.choice([0, 1, 5]))
        ctx.count("consequence:dense_output_dtype_of_an_index_without_entries")
    for j, col in enumerate(cols):
        code = [c for c in codes if c != common][j % (len(codes) - 1)]
        entries[(code, col)] = sorted(set(int(r) for r in rng.integers(0, nrows, size=2)))
    if cols and ncols <= 2 and nrows <= 3 and rng.random() < 0.5:
        # every cell listed explicitly and the common value (given with new_common=, occurring nowhere) far outside
        # the range of the codes: it is still what the output is initialised with
        code = [c for c in codes if c != common][0]
        entries = {(code, col): list(range(nrows)) for col in range(ncols)}
        common = int(rng.choice([-1, 1000, 70000, 2 ** 32, -40000]))
        ctx.count("consequence:dense_output_dtype_of_a_fully_explicit_index")
    # with a mapping: keys are exactly the stored codes, the common value listed or not (then 0 fills)
    targets_cls = [[10, 20, 30, 40], [1, 2, 3, 255], [0, 5, 256, 7], [-1, 4, 5, 6], [100, 200, 300, 70000]]
    targets = [int(v) for v in targets_cls[int(rng.integers(0, len(targets_cls)))]]
    list_common = bool(rng.random() < 0.5)
    keys = sorted(set(k[0] for k in entries)) + ([common] if list_common else [])
    mp = {k: targets[j % len(targets)] for j, k in enumerate(keys)}
    # the common code itself lies far outside the mapped values in most of the cases
    far = int(rng.choice([-1, 1000, 70000, -200]))
    common2 = far if (not list_common and far not in mp and rng.random() < 0.7) else common
    dense_output_dtype_case(ctx, {"kind": "dense_output_dtype", "entries": [[list(k), v] for k, v in entries.items()],
                                  "common": common, "shape": [nrows, ncols], "mapping": [[k, v] for k, v in mp.items()],
                                  "common2": common2})


def dense_output_dtype_case(ctx, case):
    from catii import iindex

    entries = {tuple(int(c) for c in k): numpy.array(v, dtype=numpy.uint32) for k, v in case["entries"]}
    common, shape = int(case["common"]), tuple(int(x) for x in case["shape"])
    nrows, ncols = shape
    idx = iindex(dict(entries), common, shape)
    stored = [k[0] for k in entries] + [common]
    out = idx.to_array()
    exp = expected(min(stored), max(stored))
    ctx.count("consequence:dense_output_dtype_checked")
    ctx.count("consequence:dense_output_dtype_checked:columns>%d" % (65536 if ncols > 65536 else (256 if ncols > 256 else (128 if ncols > 128 else 0))))
    if exp is not None and out.dtype != exp:
        ctx.violation("insitu:to_array-dtype:%s" % ("too-wide" if out.dtype.itemsize > exp.itemsize else "wrong"),
                      "to_array() of a %dx%d index with codes %r and common %r chose %s; the narrowest dtype holding the stored values is %s" % (nrows, ncols, sorted(set(stored)), common, out.dtype, exp), case)
        return
    mp = {int(k): int(v) for k, v in case["mapping"]}
    if not mp:
        return
    common2 = int(case["common2"])
    if common2 in mp and common2 != common:
        return
    idx2 = iindex(dict(entries), common2, shape)
    out2 = idx2.to_array(mapping=dict(mp))
    fill = mp.get(idx2.common, 0)
    must = [mp[k[0]] for k in entries] + [fill]
    exp2 = expected(min(must), max(must))
    ctx.count("consequence:mapped_dense_output_dtype_checked" + ("" if idx2.common in mp else ":common_not_in_mapping"))
    if exp2 is not None and out2.dtype != exp2:
        ctx.violation("insitu:to_array(mapping)-dtype:%s" % ("too-wide" if out2.dtype.itemsize > exp2.itemsize else "wrong"),
                      "to_array(mapping=%r) of an index with codes %r and common %r chose %s; the values written are %r, the narrowest dtype holding them is %s" % (mp, sorted(set(k[0] for k in entries)), idx2.common, out2.dtype,
                                                                 sorted(set(must)), exp2), case)


def collapsed_output_dtype(ctx, idx, prec, form):
    """The dtype of the per-row output array collapsed() fills (observed at the numpy.full call that creates it, the
    precedence's last value being its fill) against the narrowest dtype for [min(precedence), max(precedence)];
    the precedence is handed over as a list, a tuple or an integer ndarray - same values, same answer."""
    import catii.iindexes as ii

    seen = []
    real_full = numpy.full

    def full(shape, fill_value, dtype=None, *a, **k):
        out = real_full(shape, fill_value, dtype, *a, **k)
        fr = sys._getframe(1)
        if fr.f_code.co_name == "collapsed" and fr.f_code.co_filename == getattr(ii, "__file__", None):
            seen.append((numpy.shape(out), fill_value, out.dtype))
        return out

    numpy.full = full
    try:
        arg = {"list": list, "tuple": tuple}.get(form, lambda p: numpy.array(p, dtype={"int64": numpy.int64, "int32": numpy.int32,
                                                                                      "uint64": numpy.uint64}[form]))(prec)
        idx.collapsed(arg)
    finally:
        numpy.full = real_full
    hits = [dt for shp, fill, dt in seen if shp == (idx.shape[0],) and int(fill) == int(prec[-1])]
    if not hits:
        ctx.count("consequence:collapsed_output_array_not_observed")
        return
    ctx.count("consequence:collapsed_output_dtype_observed:precedence_as_" + form)
    exp = expected(min(prec), max(prec))
    if exp is not None and hits[0] != exp:
        ctx.violation("insitu:collapsed-output-dtype:%s:precedence-as-%s" % ("too-wide" if hits[0].itemsize > exp.itemsize else "wrong", form),
                      "collapsed(%s %r) fills a %s output array; the narrowest dtype of the right signedness for its values is %s"
                      % (form, list(prec), hits[0], exp), {"kind": "collapsed_output_dtype", "precedence": [int(p) for p in prec], "form": form})


def insitu_one(ctx, rng, i, k, idx, a2, vals, signed, io_):
    if i % 10 == 3:
        collapse_many_columns(ctx, rng)
    if i % 3 == 1:
        dense_output_dtype(ctx, rng)
    if True:
        if True:
            out = idx.to_array()                       # default dtype -> fit_dtype
            if not numpy.array_equal(out.astype(object), a2.astype(object)):
                ctx.violation("insitu:to_array-wrapped", "to_array() default dtype %s lost values" % out.dtype,
                              {"a": a2})
            prec = sorted(set(vals), key=lambda v: (v % 7, v))
            col = idx.collapsed(prec)                   # fit_dtype(max, min) and fit_dtype(numcols)
            got = set(int(v) for v in col.to_array(dtype=numpy.int64).ravel().tolist()) if max(abs(v) for v in vals) < 2 ** 63 else set()
            ctx.count("consequence:collapsed_output_checked")
            if len(idx.shape) == 2 and max(abs(v) for v in prec) < 2 ** 31:
                forms = ["list", "tuple", "int64", "int32"] + (["uint64"] if min(prec) >= 0 else [])
                collapsed_output_dtype(ctx, idx, prec, forms[i % len(forms)])
            if not got <= set(prec):
                ctx.violation("insitu:collapsed-wrapped", "collapsed(%r) produced values %r that are not in the precedence list: the chosen output dtype wrapped them" % (prec, sorted(got - set(prec))[:4]), {"a": a2, "precedence": prec})
            # the same index again after its set of codes has been changed IN PLACE (same number of entries,
            # same common value): the dense output dtype must follow
            if len(idx) >= 1 and i % 2 == 0:
                key = list(dict.keys(idx))[0]
                newcode = int(rng.choice([-1, -200, 300, 70000, 2 ** 33, 5]))
                if all(newcode != kk[0] for kk in dict.keys(idx)) and newcode != idx.common:
                    rows = dict.pop(idx, key)
                    dict.__setitem__(idx, (newcode,) + tuple(key[1:]), rows)
                    a3 = a2.copy()
                    a3[(rows.astype(numpy.intp),) + tuple(key[1:])] = newcode
                    out3 = idx.to_array()
                    ctx.count("consequence:to_array_after_in_place_code_change")
                    if not numpy.array_equal(out3.astype(object), a3.astype(object)):
                        ctx.violation("insitu:to_array-wrapped", "after an in-place change of the codes to_array() (dtype %s) lost values" % out3.dtype, {"a": a3})
                    exp3 = expected(min(int(a3.min()), int(idx.common)), max(int(a3.max()), int(idx.common)))
                    if exp3 is not None and out3.dtype != exp3:
                        ctx.violation("insitu:to_array-dtype-stale:%s" % ("too-wide" if out3.dtype.itemsize > exp3.itemsize else "wrong"),
                                      "after an in-place change of the codes to_array() chose %s, the narrowest fitting dtype is %s" % (out3.dtype, exp3), {"a": a3})
                    # undo, so that the rest of the workload sees the original index
                    dict.pop(idx, (newcode,) + tuple(key[1:]))
                    dict.__setitem__(idx, key, rows)
            # a mapping that renames the common value to something outside the range of the other values,
            # listed at a non-last position of the precedence
            far = int(rng.choice([300, 70000, -1, -200, 2 ** 33])) if max(abs(v) for v in vals) < 2 ** 62 else None
            if far is not None and far not in vals and len(prec) >= 2:
                mp = {int(idx.common): far}
                prec2 = [p for p in prec if p != idx.common]
                prec2.insert(int(rng.integers(0, max(1, len(prec2)))), far)
                col2 = idx.collapsed(prec2, mp)
                got2 = set(int(v) for v in col2.to_array(dtype=numpy.int64).ravel().tolist())
                ctx.count("consequence:collapsed_with_mapping_checked")
                if not got2 <= set(prec2):
                    ctx.violation("insitu:collapsed-wrapped", "collapsed(%r, %r) produced values %r not in the precedence list"
                                  % (prec2, mp, sorted(got2 - set(prec2))[:4]), {"a": a2, "precedence": prec2, "mapping": mp})
            if not signed:
                # the widest coordinate deliberately sits in the FIRST key and in either position
                order = sorted(range(len(vals)), key=lambda j: -vals[j])
                keys = [(int(vals[j]), int(pos)) if i % 2 == 0 else (int(pos), int(vals[j])) for pos, j in enumerate(order)]
                indx_words_case(ctx, io_, keys, int(vals[int(rng.integers(0, k))]))


def indx_words_case(ctx, io_, keys, common):
    ent = {tuple(int(c) for c in key): numpy.array([pos], dtype=numpy.uint32) for pos, key in enumerate(keys)}
    with tempfile.TemporaryFile() as f:
        io_.IndxIO.save(f, ent, common, numpy.dtype(numpy.uint32))
        f.seek(21)
        word = f.read(1)[0]
        f.seek(0)
        loaded, lcommon, _ = io_.IndxIO.load(f)
        lkeys = set(loaded)
        del loaded
    ctx.count("consequence:indx_words_checked")
    biggest = max([c for key in ent for c in key] + [common])
    narrowest = expected(0, biggest)
    if narrowest is not None and word != narrowest.itemsize:
        ctx.violation("insitu:indx-coordinate-word:%s" % ("too-wide" if word > narrowest.itemsize else "too-narrow"),
                      "INDX coordinate word is %d byte(s) for values up to %d; the narrowest unsigned word holding them has %d"
                      % (word, biggest, narrowest.itemsize),
                      {"kind": "indx_words", "keys": [list(k) for k in ent], "common": common})
        return
    if lkeys != set(ent) or lcommon != common:
        ctx.violation("insitu:indx-coordinate-wrapped",
                      "INDX coordinate word too narrow: saved keys %r common %r, loaded keys %r common %r"
                      % (sorted(ent)[:4], common, sorted(lkeys)[:4], lcommon),
                      {"kind": "indx_words", "keys": [list(k) for k in ent], "common": common})


def replay(ctx, case):
    """Re-run one recorded case (a fit_dtype call, or one of the caller-side consequences)."""
    import catii.iindexes as ii
    import catii.indxio as io_
    from ..gen import dense_to_index

    kind = case.get("kind")
    if "args" in case:
        args = tuple(int(x) for x in case["args"])
        judge_call(ctx, args, ii.fit_dtype(*args), "replay")
    elif kind == "collapse_many_columns":
        collapse_many_columns_case(ctx, int(case["ncols"]), [int(p) for p in case["precedence"]])
    elif kind == "dense_output_dtype":
        dense_output_dtype_case(ctx, case)
    elif kind == "collapsed_output_dtype":
        prec = [int(p) for p in case["precedence"]]
        a2 = numpy.array([[prec[0], prec[-1]], [prec[-1], prec[0]], [prec[0], prec[0]]], dtype=numpy.int64)
        collapsed_output_dtype(ctx, dense_to_index(a2, prec[0]), prec, case["form"])
    elif kind == "indx_words":
        indx_words_case(ctx, io_, [tuple(k) for k in case["keys"]], int(case["common"]))
    elif "a" in case:
        # a workload array: every consequence is run on it again, with several draws of the random choices
        a2 = numpy.asarray(case["a"]).astype(numpy.int64)
        vals = sorted(set(int(v) for v in a2.ravel().tolist()))
        signed = min(vals) < 0

        def make(orig, patch):
            def wrapper(*args, **kw):
                if kw:
                    args = args + tuple(kw[k] for k in ("maxval", "minval") if k in kw)
                res = orig(*args)
                judge_call(ctx, args, res, "insitu")
                return res
            return wrapper

        patch = monitors.patch_everywhere(ii.fit_dtype, make)
        ctx.inflight({"a": a2, "values": vals})
        try:
            for i in range(8):
                idx = dense_to_index(a2, int(a2[0, 0]))
                try:
                    insitu_one(ctx, numpy.random.default_rng([19, i]), i * 2 if i < 4 else i * 2 + 1, len(vals), idx, a2, vals, signed, io_)
                except OverflowError as e:
                    ctx.violation("insitu:overflow", "the dtype chosen by the library cannot hold a value it must store: %s" % e,
                                  {"a": a2, "values": vals})
                except Exception:
                    ctx.count("insitu_workload_raised(not judged here)")
            ctx.inflight(None)
        finally:
            patch.undo()
    else:
        raise ValueError("unknown C19 replay case: %r" % sorted(case))
