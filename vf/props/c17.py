"""C17 - aggregations are pure: inputs untouched, no hidden state between calls.

Oracle: deep byte snapshots of every argument before and after each call;
calculate(list)[i] == calculate([list[i]])[0]; repeated, permuted and
reused-object calls return the same arrays."""
import itertools

import numpy

from .. import aggr, gen, monitors

NaN = float("nan")

META = {
    "level": "exploration",
    "rule": ("cube cases (both cube types, 0-3 dimensions, multi-axis included) with lists of 2-6 aggregate-function objects built from facts/weights in NaN-marked and (values, validity) form with garbage under False; every argument is byte-snapshotted around construction, calculate, the ten shortcut methods, walk/interactions; calculate(list) is compared with calculate([each]) alone, with every permutation (<=4 functions; sampled beyond), with a repeated call and with re-use of the same objects on another cube and back; non-mutating index methods are snapshotted likewise; snapshots include the writeable flag; arrays returned by the first calculate are re-read after every later one; arguments edited in place between two calls are compared with byte-identical fresh copies; construction with inferred shape. Non-trivial: a call with >=1 missing fact or weight row; distinct by content hash"),
    "require": {t: ["calls:calculate", "calls:shortcut", "same_array_object_edited_in_place_between_calls:checked", "calls:construct", "calls:construct_with_inferred_shape", "calls:walk", "calls:index_method",
                    "cube:ccube", "cube:xcube", "perm:checked", "reuse_other_cube:checked", "class:garbage_under_false",
                    "reuse_other_rowcount:checked", "repeated_object_in_list:checked", "reuse_zero_dim_cube:checked", "state_on_index_objects:checked"]
                for t in ("quick", "thorough")},
    "assumptions": ["diagnostic counters (tracing dicts, intersection_data_points) are not part of the result and not compared"],
}
META["rule"] += '; round 7: mappings with a default factory (complete for to_array/collapsed, which require every stored value; incomplete for reindexed, which lets values be left out)'
for _t in META["require"]:
    META["require"][_t] = list(META["require"][_t]) + ['class:mapping_is_a_defaultdict']


def shards(tier):
    if tier == "quick":
        return [{"label": "cases%d" % i, "n": 60} for i in range(12)] + [{"label": "repotests", "kind": "repotests", "n": 0}]
    return [{"label": "cases%d" % i, "n": 2500} for i in range(15)] + \
           [{"label": "repotests", "kind": "repotests", "n": 0, "timeout_s": 3600}]


def cases(ctx):
    rng = ctx.rng
    if ctx.shard.get("kind") == "repotests":
        from .. import repotests

        repotests.run(ctx, "C17")
        return
    for i in range(ctx.shard["n"]):
        c = gen.cube_case(rng, min_dims=0, max_dims=3, max_axes=2, n=gen.pick(rng, [1, 3, 6, 12, 40]),
                          allow_outside_common=False, explicit_shape=True, max_extra=3)
        c["n"] = c["dense"][0].shape[0] if c["dense"] else gen.pick(rng, [1, 3, 6])
        c["kind"] = gen.pick(rng, ["ccube", "xcube"])
        names = aggr.SHARED if c["kind"] == "ccube" else aggr.SHARED + aggr.XONLY
        k = int(rng.integers(2, 7))
        c["aggs"] = [gen.pick(rng, names) for _ in range(k)]
        c["inputs"] = [aggr.agg_inputs(rng, c["n"]) if a in aggr.SHARED else aggr.xonly_inputs(rng, c["n"], a)
                       for a in c["aggs"]]
        c["other"] = gen.cube_case(rng, ndims=len(c["dense"]), n=c["n"], max_axes=1, allow_outside_common=False,
                                   explicit_shape=True)
        c["pseed"] = int(rng.integers(0, 2 ** 31))
        yield c


def make_func(kind, agg, inp, rma, n_rows=None):
    """Aggregate-function object built through the public constructors only.  n_rows is passed as N to
    a count function (needed when the cube has no dimension to take the row count from)."""
    from catii import ffuncs, xfuncs

    f = gen.fact_arg(inp["fact"])
    w = gen.weight_arg(inp["weights"])
    ig = inp["ignore_missing"]
    args = {"fact": f, "weights": w}
    mod = ffuncs if kind == "ccube" else xfuncs
    pre = "ffunc_" if kind == "ccube" else "xfunc_"
    if agg == "count":
        fn = getattr(mod, pre + "count")(w, n_rows, ig, rma)
        args = {"weights": w}
    elif agg in ("min", "max"):
        fn = getattr(mod, pre + agg)(f, ig, rma)
        args = {"fact": f}
    elif agg == "quantile":
        fn = xfuncs.xfunc_quantile(f, inp["p"], w, ig, rma)
    else:
        fn = getattr(mod, pre + agg)(f, w, ig, rma)
    return fn, args


def same(a, b):
    if isinstance(a, tuple) or isinstance(b, tuple):
        return isinstance(a, tuple) and isinstance(b, tuple) and len(a) == len(b) and all(same(x, y) for x, y in zip(a, b))
    a, b = numpy.asarray(a), numpy.asarray(b)
    if a.shape != b.shape or a.dtype != b.dtype:
        return False
    if a.dtype.kind == "M":
        return numpy.array_equal(a.astype("int64"), b.astype("int64"))
    return numpy.array_equal(a, b, equal_nan=(a.dtype.kind in "fc"))


def freeze(res):
    if isinstance(res, tuple):
        return tuple(freeze(r) for r in res)
    return numpy.array(res, copy=True)


class Watch:
    def __init__(self, ctx, case):
        self.ctx, self.case, self.items = ctx, case, []

    def add(self, label, obj):
        self.items.append((label, obj, monitors.snapshot(obj)))

    def check(self, after):
        for label, obj, snap in self.items:
            d = monitors.snapshot_diff(snap, monitors.snapshot(obj), label)
            if d:
                self.ctx.violation("argument-mutated:%s:%s" % (after.split("(")[0], label.split("[")[0]),
                                   "after %s an argument changed: %s" % (after, d), self.case)
                return False
        return True


def judge(ctx, case):
    import catii

    kind = case["kind"]
    dense = [numpy.asarray(d) for d in case["dense"]]
    shape = tuple(case["shape"]) if dense else ()
    n = case["n"]
    ctx.count("cube:" + kind)
    w = Watch(ctx, case)
    if kind == "ccube":
        dims = gen.cube_dims(case)
        odims = gen.cube_dims(case["other"])
    else:
        dims = [a.copy() for a in dense]
        odims = [numpy.asarray(a).copy() for a in case["other"]["dense"]]
    for i, d in enumerate(dims):
        w.add("dims[%d]" % i, d)
    shp = tuple(shape)
    w.add("interacting_shape", shp)
    cls = catii.ccube if kind == "ccube" else catii.xcube
    cube = cls(dims, interacting_shape=shp if dense else None) if dense else cls([])
    ctx.count("calls:construct")
    if not w.check("cube construction"):
        return
    if dense:
        # the same construction with the cube shape left to the library (it then inspects the dimensions itself)
        if kind == "ccube":
            dims_i = gen.cube_dims(case)
        else:
            dims_i = [a.copy() for a in dense]
        wi = Watch(ctx, case)
        for i, d in enumerate(dims_i):
            wi.add("dims[%d]" % i, d)
        cube_i = cls(dims_i)
        ctx.count("calls:construct_with_inferred_shape")
        if not wi.check("cube construction (shape inferred)"):
            return
        cube_i.count()
        if not wi.check("count() on a cube with inferred shape"):
            return
    other = cls(odims, interacting_shape=tuple(case["other"]["shape"])) if dense else cls([])

    rma = gen.pick(numpy.random.default_rng(case["pseed"]), [NaN, (0, False), NaN])
    funcs = []
    rmas = []
    missing_rows = False
    for j, (agg, inp) in enumerate(zip(case["aggs"], case["inputs"])):
        r = aggr.nat_for(inp) if inp["fact"]["values"].dtype.kind == "M" and not isinstance(rma, tuple) else rma
        if isinstance(r, tuple) and inp["fact"]["values"].dtype.kind == "M":
            r = (numpy.datetime64("1999-01-01", "s"), False)
        fn, args = make_func(kind, agg, inp, r, None if dense else n)
        rmas.append(r)
        for k, v in args.items():
            w.add("%s[%d:%s]" % (k, j, agg), v)
        funcs.append(fn)
        missing_rows = missing_rows or aggr.has_missing_rows(inp)
        if inp["fact"]["validity"] is not None and not inp["fact"]["validity"].all():
            ctx.count("class:garbage_under_false")
    ctx.count("calls:construct", len(funcs))
    if not w.check("aggregate-function construction"):
        return
    feat = "%s:%s" % (kind, "+".join(sorted(set(case["aggs"]))))
    ctx.evaluation({"d": dense, "k": kind, "a": case["aggs"], "i": case["inputs"]}, missing_rows)

    live_all = cube.calculate(funcs)          # the result objects themselves are kept ...
    r_all = [freeze(r) for r in live_all]     # ... next to copies taken at once
    ctx.count("calls:calculate")

    def earlier_results_intact(after):
        # a result belongs to the caller: nothing computed later may change an array that was already returned
        ctx.count("earlier_results_rechecked")
        for i, (lv, fz) in enumerate(zip(live_all, r_all)):
            if not same(lv, fz):
                ctx.violation("returned-result-changed-later:%s:%s" % (kind, case["aggs"][i]),
                              "the arrays returned by the first calculate (function %d, %s) had changed after %s: a result is a view of state the library goes on using" % (i, case["aggs"][i], after), case)
                return False
        return True
    if not w.check("calculate(list)"):
        return
    for i, fn in enumerate(funcs):
        alone = cube.calculate([fn])[0]
        ctx.count("calls:calculate")
        if not same(alone, r_all[i]):
            ctx.violation("list-vs-alone:%s:%s" % (kind, case["aggs"][i]),
                          "calculate(list)[%d] (%s) differs from calculate([it])[0]" % (i, case["aggs"][i]), case)
            return
        if not earlier_results_intact("calculate([function %d]) on the same cube" % i):
            return
    if not w.check("calculate([one])"):
        return
    prng = numpy.random.default_rng(case["pseed"])
    perms = list(itertools.permutations(range(len(funcs)))) if len(funcs) <= 4 else \
        [tuple(int(x) for x in prng.permutation(len(funcs))) for _ in range(6)]
    for perm in perms[:24]:
        rp = cube.calculate([funcs[i] for i in perm])
        ctx.count("calls:calculate")
        ctx.count("perm:checked")
        for pos, i in enumerate(perm):
            if not same(rp[pos], r_all[i]):
                ctx.violation("permutation:%s:%s" % (kind, case["aggs"][i]),
                              "under order %r the result of function %d (%s) changes" % (perm, i, case["aggs"][i]), case)
                return
    # the same aggregate object may be listed more than once
    if len(funcs) >= 2:
        j = int(prng.integers(0, len(funcs)))
        lst = list(funcs) + [funcs[j]]
        pos = int(prng.integers(0, len(lst)))
        lst.insert(pos, funcs[j])
        rr = cube.calculate(lst)
        ctx.count("calls:calculate")
        ctx.count("repeated_object_in_list:checked")
        for item, res in zip(lst, rr):
            if not same(res, r_all[funcs.index(item)]):
                ctx.violation("repeated-object-in-list:%s:%s" % (kind, case["aggs"][funcs.index(item)]),
                              "with the same aggregate object listed more than once, calculate(list) differs from calculate([it])", case)
                return
    again = cube.calculate(funcs)
    ctx.count("calls:calculate")
    if not all(same(a, b) for a, b in zip(again, r_all)):
        ctx.violation("repeat:%s" % feat, "a second calculate with the same objects returns different arrays", case)
        return
    # reuse the same aggregate objects on another cube and come back
    try_other = dense and all(not hasattr(f, "N") or True for f in funcs)
    if try_other:
        on_other = [freeze(r) for r in other.calculate(funcs)]
        fresh_funcs = [make_func(kind, agg, inp, r_)[0] for agg, inp, r_ in zip(case["aggs"], case["inputs"], rmas)]
        want_other = other.calculate(fresh_funcs)
        if not all(same(a, b) for a, b in zip(on_other, want_other)):
            ctx.violation("reused-object-differs-on-other-cube:%s" % feat,
                          "aggregate objects already used on one cube give, on another cube, results different from fresh objects", case)
            return
        back = cube.calculate(funcs)
        ctx.count("calls:calculate", 3)
        ctx.count("reuse_other_cube:checked")
        if not all(same(a, b) for a, b in zip(back, r_all)):
            ctx.violation("reuse-other-cube:%s" % feat, "after using the same aggregate objects on another cube the results on the first cube change", case)
            return
    if not earlier_results_intact("the calls above (permuted lists, other cubes)"):
        return
    if dense:
        # ... and on a cube without dimensions in between (same rows, one cell)
        zero = cls([])
        usable = [f for f, a, inp in zip(funcs, case["aggs"], case["inputs"])
                  if not (a == "count" and inp["weights"]["kind"] in ("none", "scalar"))]
        if usable:
            zr = [freeze(r) for r in zero.calculate(usable)]
            fresh_z = [make_func(kind, a, inp, r_)[0] for f, a, inp, r_ in zip(funcs, case["aggs"], case["inputs"], rmas)
                       if any(f is u for u in usable)]
            want_z = cls([]).calculate(fresh_z)
            ctx.count("reuse_zero_dim_cube:checked")
            if not all(same(a, b) for a, b in zip(zr, want_z)):
                ctx.violation("reused-object-differs-on-dimensionless-cube:%s" % feat,
                              "aggregate objects already used on a cube give, on a dimensionless cube, results different from fresh objects", case)
                return
            back = cube.calculate(funcs)
            if not all(same(a, b) for a, b in zip(back, r_all)):
                ctx.violation("reuse-after-dimensionless-cube:%s" % feat,
                              "after using the same aggregate objects on a dimensionless cube the results on the first cube change", case)
                return
        # aggregate functions that carry no row-aligned argument may be re-used on a cube with another row count
        if not reuse_other_rowcount(ctx, case, kind, cls):
            return
    if not w.check("repeated / permuted / re-used calculate"):
        return
    # the shortcut methods with fresh snapshots
    for agg, inp in zip(case["aggs"], case["inputs"]):
        w2 = Watch(ctx, case)
        f = gen.fact_arg(inp["fact"])
        wt = gen.weight_arg(inp["weights"])
        w2.add("fact", f)
        w2.add("weights", wt)
        for i, d in enumerate(dims):
            w2.add("dims[%d]" % i, d)
        ig = inp["ignore_missing"]
        r = aggr.nat_for(inp)
        if agg == "count":
            cube.count(weights=wt, N=n if not dense else None, ignore_missing=ig, return_missing_as=r)
        elif agg in ("min", "max"):
            getattr(cube, agg)(f, ignore_missing=ig, return_missing_as=r)
        elif agg == "quantile":
            cube.quantile(f, inp["p"], weights=wt, ignore_missing=ig, return_missing_as=r)
        else:
            getattr(cube, agg)(f, weights=wt, ignore_missing=ig, return_missing_as=r)
        ctx.count("calls:shortcut")
        if not w2.check("%s(...) shortcut" % agg):
            return
    # The caller's own NaN-marked arrays, edited in place between two calls (a missing value filled in, a value
    # struck out) and passed again as the same objects: the second result must be the one a byte-identical fresh
    # copy gives - results depend on the arguments' content, not on which object carries it or on earlier calls.
    if n >= 2:
        for agg, inp in zip(case["aggs"], case["inputs"]):
            if agg not in ("sum", "mean", "valid_count", "count") or inp["fact"]["validity"] is not None \
                    or inp["fact"]["values"].dtype.kind != "f":
                continue
            ig = inp["ignore_missing"]
            r = aggr.nat_for(inp)
            f = gen.fact_arg(inp["fact"])
            wt = gen.weight_arg(inp["weights"])
            nan_weights = isinstance(wt, numpy.ndarray) and wt.dtype.kind == "f"

            def run(fact, weights):
                if agg == "count":
                    return cube.count(weights=weights, N=n if not dense else None, ignore_missing=ig, return_missing_as=r)
                return getattr(cube, agg)(fact, weights=weights, ignore_missing=ig, return_missing_as=r)

            if agg == "count" and not nan_weights:
                continue
            run(f, wt)
            target = wt if agg == "count" else f
            target[0] = numpy.nan
            target[-1] = 1.25
            got = freeze(run(f, wt))
            want = freeze(run(f.copy(), wt.copy() if isinstance(wt, numpy.ndarray) else wt))
            ctx.count("calls:shortcut", 3)
            ctx.count("same_array_object_edited_in_place_between_calls:checked")
            if not same(got, want):
                ctx.violation("stale-after-in-place-edit:%s:%s" % (kind, agg),
                              "%s.%s on an array edited in place since the previous call differs from the same call on a byte-identical fresh copy" % (kind, agg), case)
                return
            break
    if kind == "ccube" and dense and all(d.ndim == 1 for d in dense):
        cube.interactions()
        log = []
        cube.walk(lambda c, r: log.append(c))
        ctx.count("calls:walk", 2)
        if not w.check("walk / interactions"):
            return
    if kind == "ccube" and dense:
        index_methods(ctx, case, dims, numpy.random.default_rng(case["pseed"]))
    if kind == "ccube" and dense and n:
        # results depend only on the arguments: after cells of a dimension are re-assigned in place, a cube
        # over the same index objects equals a cube over fresh copies of them (no state hidden on the index)
        r2 = numpy.random.default_rng(case["pseed"] + 9)
        d = int(r2.integers(0, len(dims)))
        a = dense[d]
        present = numpy.unique(a).tolist()
        groups = {}
        for f in r2.choice(a.size, size=min(3, a.size), replace=False):
            cell = tuple(int(i) for i in numpy.unravel_index(int(f), a.shape))
            groups.setdefault((int(present[int(r2.integers(0, len(present)))]),) + cell[1:], []).append(cell[0])
        dims[d].update({k: numpy.array(sorted(set(v)), dtype=numpy.uint32) for k, v in groups.items()})
        f1 = [make_func(kind, agg, inp, r_)[0] for agg, inp, r_ in zip(case["aggs"], case["inputs"], rmas)]
        f2 = [make_func(kind, agg, inp, r_)[0] for agg, inp, r_ in zip(case["aggs"], case["inputs"], rmas)]
        got = cls(dims, interacting_shape=shp).calculate(f1)
        want = cls([x.copy() for x in dims], interacting_shape=shp).calculate(f2)
        ctx.count("state_on_index_objects:checked")
        if not all(same(a_, b_) for a_, b_ in zip(got, want)):
            ctx.violation("hidden-state-on-index:%s" % feat,
                          "after an in-place update of dimension %d, a cube over the same index objects differs from a cube over copies of them" % d, case)
            return
    if ctx.evals % 53 == 1:
        ctx.sample({"kind": kind, "aggs": case["aggs"], "dense_shapes": [list(d.shape) for d in dense],
                    "first_fact": case["inputs"][0]["fact"]["values"], "first_fact_validity": case["inputs"][0]["fact"]["validity"]})


def reuse_other_rowcount(ctx, case, kind, cls):
    from catii import ffuncs, xfuncs

    rng = numpy.random.default_rng(case["pseed"] + 5)
    mod, pre = (ffuncs, "ffunc_") if kind == "ccube" else (xfuncs, "xfunc_")
    shape = tuple(case["shape"])

    def cube_of(n):
        dense = []
        for a in case["dense"]:
            a = numpy.asarray(a)
            rows = rng.integers(0, max(1, a.shape[0]), size=n)
            dense.append(a[rows])
        if kind == "ccube":
            return cls([gen.dense_to_index(a, c) for a, c in zip(dense, case["commons"])], interacting_shape=shape)
        return cls([a.copy() for a in dense], interacting_shape=shape)

    n1 = case["n"]
    n2 = n1 + int(rng.integers(1, 6))
    c1, c2 = cube_of(n1), cube_of(n2)
    for w in (None, float(gen.pick(rng, [0.5, 2.0]))):
        for rma in (NaN, (0, False)):
            ig_ = bool(rng.random() < 0.5)
            f = getattr(mod, pre + "count")(w, None, ig_, rma)
            g = getattr(mod, pre + "count")(w, None, ig_, rma)
            r1 = freeze(c1.calculate([f])[0])
            r2 = c2.calculate([f])[0]
            want2 = c2.calculate([g])[0]
            ctx.count("calls:calculate", 3)
            ctx.count("reuse_other_rowcount:checked")
            if not same(r2, want2):
                ctx.violation("reused-count-object-remembers-row-count:%s" % kind,
                              "a count function first used on a cube of %d rows gives, on a cube of %d rows, a result different from a fresh function (weights=%r)" % (n1, n2, w), case)
                return False
            if not same(c1.calculate([f])[0], r1):
                ctx.violation("reuse-other-cube:%s:count" % kind, "count results on the first cube change after use on another cube", case)
                return False
    return True


def index_methods(ctx, case, dims, rng):
    """Non-mutating index methods leave self and their arguments untouched."""
    from catii.iindexes import column_stack

    for x in dims:
        if len(x.shape) > 2:
            continue
        w = Watch(ctx, case)
        w.add("self", x)
        n = x.shape[0]
        vals = sorted({c[0] for c in x} | {x.common})
        mask = rng.random(n) < 0.5
        mapping = {v: (v + 1) % 3 for v in vals}
        if rng.random() < 0.5:
            mapping.pop(x.common, None)          # a mapping that does not mention the common value
        if rng.random() < 0.3:
            # a mapping with a default factory (reading a key it lacks with [] would add the key to it)
            import collections

            mapping = collections.defaultdict(int, mapping)
            ctx.count("class:mapping_is_a_defaultdict")
        # re-indexing lets the mapping leave values out ("coords missing from the mapping keep their value"); the
        # other mapped methods require every stored value in it, so only this one gets an incomplete mapping
        rmapping = type(mapping)(mapping) if not hasattr(mapping, "default_factory") else type(mapping)(int, mapping)
        if vals and rng.random() < 0.6:
            rmapping.pop(vals[int(rng.integers(0, len(vals)))], None)
        w.add("reindexed mapping", rmapping)
        prec = list(vals)[::-1]
        w.add("mask", mask)
        w.add("mapping", mapping)
        w.add("precedence", prec)
        calls = [
            ("to_array", lambda: x.to_array()), ("to_array(mapping)", lambda: x.to_array(mapping=mapping)),
            ("to_dict", lambda: x.to_dict(True)), ("get", lambda: x.get((vals[0],) + (0,) * (len(x.shape) - 1), None, True)),
            ("items", lambda: list(x.items(True))), ("common_rowids", lambda: x.common_rowids(*((0,) if len(x.shape) > 1 else ()))),
            ("copy", lambda: x.copy()), ("filtered", lambda: x.filtered(mask, int(mask.sum()))),
            ("reindexed", lambda: x.reindexed(rmapping)), ("reindexed()", lambda: x.reindexed()),
            ("slices1d", lambda: list(x.slices1d())), ("==", lambda: x == x.copy()), ("!=", lambda: x != x.copy()),
            ("validate", lambda: x.validate(True)), ("abscissae", lambda: (x.abscissae, x.sparsity, x.nbytes, x.size)),
            ("column_stack", lambda: column_stack([x, x], new_common=vals[-1])),
            ("column_stack(auto)", lambda: column_stack([x])),
        ]
        if len(x.shape) == 2:
            order = [int(i) for i in rng.permutation(x.shape[1])]
            w.add("order", order)
            calls += [("sliced", lambda: x.sliced(order)), ("sliced(int)", lambda: x.sliced(0)),
                      ("collapsed", lambda: x.collapsed(prec)), ("collapsed(mapping)", lambda: x.collapsed(prec, mapping))]
        for name, fn in calls:
            fn()
            ctx.count("calls:index_method")
            if not w.check("index." + name):
                return
