"""C14 - walk presents exactly the non-empty uncommon and marginal intersections.

Oracle: offline checker over the recorded callback log (exactly-once,
completeness, no-extra) against a dense group-by over the dense twins."""
import itertools

import numpy

from .. import gen

U32 = numpy.uint32

META = {
    "level": "exploration",
    "rule": ("1-4 one-axis index dimensions, N in {0,1,3,8,20,200}, extents 1-5, any common (most frequent, rare, with zero rows, outside the data), uncommon categories that never co-occur; the callback log of interactions() and of walk() with 1-3 callbacks is compared as a multiset with {(c, rows(c))} - every callback's log; strided row-id arrays, stored-but-empty categories, exactly 256/65536 uncommon categories, nested dimensions, one object as two dimensions, re-walk after in-place edits, a callback that walks the same cube itself, parallel flag set before walking. Non-trivial: >=2 dimensions and >=1 delivered combination mixing a category with a marginal marker; distinct by content hash"),
    "require": {t: ["class:ndims=1", "class:ndims=4", "class:n=0", "class:common_without_rows", "class:empty_intersection",
                    "events:mixed", "events:all_uncommon", "walk:callbacks=3", "via:interactions",
                    "walk:after_in_place_edit", "class:strided_rowid_arrays", "walk:repeated",
                    "class:frequent_category_stored_explicitly", "class:exactly_256_uncommon_categories",
                    "class:stored_category_without_rows"] for t in ("quick", "thorough")},
    "assumptions": ["the order of delivery is not part of the property; only the multiset of (coordinates, row ids)"],
}
META["rule"] += '; round 7: a callable that is also a sequence (UserList subclass with __call__) passed bare as the single callback'
for _t in META["require"]:
    META["require"][_t] = list(META["require"][_t]) + ['walk:callback_is_a_callable_sequence']


def shards(tier):
    if tier == "quick":
        return [{"label": "cubes%d" % i, "n": 6000} for i in range(14)]
    return [{"label": "cubes%d" % i, "n": 150000} for i in range(16)]


def cases(ctx):
    rng = ctx.rng
    for i in range(ctx.shard["n"]):
        if i % 300 == 41:
            # exactly 256 (rarely 65536) uncommon categories, all present, in a non-first dimension
            m = 65536 if (i == 341 and ctx.shard_index < 2) else 256
            n = m + int(rng.integers(5, 60))
            a1 = numpy.concatenate([numpy.arange(1, m + 1), rng.integers(0, m + 1, size=n - m)]).astype(numpy.int64)
            rng.shuffle(a1)
            a0 = rng.integers(0, 3, size=n).astype(numpy.int64)
            c = {"dense": [a0, a1] if rng.random() < 0.8 else [a0, a1, rng.integers(0, 2, size=n).astype(numpy.int64)],
                 "commons": [int(rng.integers(0, 3)), 0], "shape": None, "extents": [3, m + 1]}
            if len(c["dense"]) == 3:
                c["commons"].append(0)
                c["extents"].append(2)
            c["ncallbacks"], c["via"], c["stride_seed"], c["edit_seed"] = 1, "interactions", None, None
            ctx.count("class:exactly_%d_uncommon_categories" % m)
            yield c
            continue
        if i % 150 == 77:
            # thousands of rows, a frequent category stored explicitly: long row-id lists against short ones
            from .c02 import lopsided_case

            c = lopsided_case(rng)
            c["shape"] = None
            c["ncallbacks"], c["via"], c["stride_seed"], c["edit_seed"] = 1, "interactions", None, None
            ctx.count("class:frequent_category_stored_explicitly")
            yield c
            continue
        if i % 20 == 9:
            # nested variables (county after state): one dimension is a coarsening of another, in any order,
            # so that a category of one covers every row reached through a category of the other
            n = int(gen.pick(rng, [8, 20, 60]))
            fine = rng.integers(0, int(rng.integers(3, 7)), size=n).astype(numpy.int64)
            coarse = fine // 2
            other = [rng.integers(0, int(rng.integers(2, 4)), size=n).astype(numpy.int64) for _ in range(int(rng.integers(1, 3)))]
            dense = [coarse, fine] + other
            order = [int(x) for x in rng.permutation(len(dense))]
            dense = [dense[j] for j in order]
            ext = [int(a.max()) + 1 for a in dense]
            c = {"dense": dense, "commons": [int(rng.integers(0, e + 1)) for e in ext], "shape": None, "extents": ext}
            c["ncallbacks"] = int(rng.integers(1, 4))
            c["stride_seed"] = c["edit_seed"] = c["empty_seed"] = None
            c["via"] = gen.pick(rng, ["interactions", "walk", "walk"])
            ctx.count("class:nested_dimensions")
            yield c
            continue
        c = gen.cube_case(rng, min_dims=1, max_dims=4, max_axes=1, n=gen.pick(rng, [0, 1, 3, 8, 20, 200]))
        if i % 10 == 3 and 1 <= len(c["dense"]) <= 3:
            # the same index OBJECT stands for two dimensions (a variable crossed with itself)
            j = int(rng.integers(0, len(c["dense"])))
            c["repeat"] = [j, int(rng.integers(0, len(c["dense"]) + 1))]
        c["ncallbacks"] = int(rng.integers(1, 4))
        c["stride_seed"] = int(rng.integers(0, 2 ** 31)) if rng.random() < 0.25 else None
        c["edit_seed"] = int(rng.integers(0, 2 ** 31)) if rng.random() < 0.3 else None
        c["empty_seed"] = int(rng.integers(0, 2 ** 31)) if (c["edit_seed"] is None and rng.random() < 0.15) else None
        c["via"] = gen.pick(rng, ["interactions", "walk"])
        if c.get("repeat"):
            c["stride_seed"] = c["edit_seed"] = c["empty_seed"] = None
        yield c


import collections


class _CellLog(collections.UserList):
    """A callable that is also a (here: empty) sequence."""

    def __init__(self, sink):
        super().__init__()
        self.sink = sink

    def __call__(self, coords, rowids):
        self.sink.append((coords, rowids))


def expected_events(dense, commons):
    """Row-wise oracle: a row whose uncommon coordinates are {d: v_d, d in U} matches exactly the
    combinations that keep v_d on a non-empty subset of U and are marginal elsewhere."""
    n = dense[0].shape[0]
    nd = len(dense)
    unc = [a != c for a, c in zip(dense, commons)]
    exp = {}
    subsets = [s for s in itertools.product([False, True], repeat=nd) if any(s)]
    for s in subsets:
        mask = numpy.ones(n, dtype=bool)
        for d in range(nd):
            if s[d]:
                mask &= unc[d]
        rows = numpy.nonzero(mask)[0]
        if not len(rows):
            continue
        keycols = [dense[d][rows] if s[d] else numpy.full(len(rows), -1, dtype=numpy.int64) for d in range(nd)]
        order = numpy.lexsort(keycols[::-1])
        srows = rows[order]
        skeys = numpy.stack([k[order] for k in keycols], axis=1)
        change = numpy.nonzero(numpy.any(skeys[1:] != skeys[:-1], axis=1))[0] + 1
        starts = numpy.concatenate([[0], change])
        ends = numpy.concatenate([change, [len(srows)]])
        for a, b in zip(starts, ends):
            exp[tuple(int(v) for v in skeys[a])] = numpy.sort(srows[a:b]).tolist()
    # number of combinations of present uncommon categories that match no row (they must be skipped)
    total = 1
    for a, c in zip(dense, commons):
        total *= len([v for v in numpy.unique(a).tolist() if v != c]) + 1
    return exp, (total - 1) - len(exp)


def expected_events_bruteforce(dense, commons):
    per_dim = []
    for a, c in zip(dense, commons):
        unc = [int(v) for v in numpy.unique(a).tolist() if v != c]
        per_dim.append(unc + [-1])
    exp = {}
    n = dense[0].shape[0]
    empties = 0
    for combo in itertools.product(*per_dim):
        if all(v == -1 for v in combo):
            continue
        mask = numpy.ones(n, dtype=bool)
        for a, v in zip(dense, combo):
            if v != -1:
                mask &= (a == v)
        rows = numpy.nonzero(mask)[0]
        if len(rows):
            exp[combo] = rows.tolist()
        else:
            empties += 1
    return exp, empties


def judge(ctx, case):
    import catii

    dense = [numpy.asarray(d) for d in case["dense"]]
    commons = case["commons"]
    dims = gen.cube_dims(case)
    cshape = case["shape"]
    if case.get("repeat"):
        j, pos = case["repeat"]
        commons = list(commons)
        dense.insert(pos, dense[j])
        commons.insert(pos, commons[j])
        dims.insert(pos, dims[j])
        if cshape is not None:
            cshape = list(cshape)
            cshape.insert(pos, cshape[j])
            cshape = tuple(cshape)
        ctx.count("class:same_index_object_as_two_dimensions")
    n = dense[0].shape[0]
    ctx.count("class:ndims=%d" % len(dense))
    ctx.count("class:n=0" if n == 0 else "class:n>0")
    if any(n and not (a == c).any() for a, c in zip(dense, commons)):
        ctx.count("class:common_without_rows")
    exp, empties = expected_events(dense, commons)
    if empties:
        ctx.count("class:empty_intersection")
    if case.get("empty_seed") is not None:
        # categories that are stored but matched by no row (an index may hold them): nothing may be
        # presented for them
        r4 = numpy.random.default_rng(case["empty_seed"])
        for d, x in enumerate(dims):
            if r4.random() < 0.6:
                dict.__setitem__(x, (case["extents"][d] + 1 + int(r4.integers(0, 3)),), numpy.zeros(0, dtype=U32))
        ctx.count("class:stored_category_without_rows")
    if case.get("stride_seed") is not None:
        r3 = numpy.random.default_rng(case["stride_seed"])
        for d in dims:
            gen.stride_entries(d, r3)
        ctx.count("class:strided_rowid_arrays")
    cube = catii.ccube(dims, interacting_shape=cshape)
    cn = int(n + len(dense) + sum(int(c) for c in commons))
    if cn % 5 == 2:
        # evaluation knobs set after construction (as research scripts do) must not change what a walk presents
        cube.parallel = True
        cube.poolsize = [1, 2, 4][cn % 3]
        ctx.count("class:parallel_flag_set_before_walking")
    logs = []
    nested = []
    if case["via"] == "walk" and cn % 4 == 1 and len(dense) >= 1:
        # a callback that, part-way through, walks the same cube itself (a custom aggregate fetching the cube's
        # margins lazily): both the inner and the outer walk must present everything
        k = case["ncallbacks"]
        ctx.count("walk:callbacks=%d" % k)
        ctx.count("walk:re-entered_from_a_callback")
        logs = [[] for _ in range(k)]
        state = {"calls": 0}

        def reenter(c, r, L):
            L.append((c, r))
            state["calls"] += 1
            if state["calls"] == 2:
                nested.append([(cc, rr) for cc, rr in cube.interactions()])

        cbs = [(lambda c, r, L=L: reenter(c, r, L)) if j == 0 else (lambda c, r, L=L: L.append((c, r)))
               for j, L in enumerate(logs)]
        cube.walk(cbs[0] if k == 1 and n % 2 == 0 else cbs)
        logs = logs + nested
    elif case["via"] == "interactions":
        ctx.count("via:interactions")
        logs.append([(c, r) for c, r in cube.interactions()])
    else:
        k = case["ncallbacks"]
        ctx.count("walk:callbacks=%d" % k)
        logs = [[] for _ in range(k)]
        cbs = [(lambda c, r, L=L: L.append((c, r))) for L in logs]
        if k == 1 and n % 2 == 0 and cn % 3 == 0:
            # a single callback that is itself a collection (a collecting aggregate that lets its cells be read back)
            ctx.count("walk:callback_is_a_callable_sequence")
            cube.walk(_CellLog(logs[0]))
        else:
            cube.walk(cbs[0] if k == 1 and n % 2 == 0 else cbs)
    mixed = any(any(v == -1 for v in c) and any(v != -1 for v in c) for c in exp)
    ctx.evaluation({"d": dense, "c": commons, "v": case["via"], "k": case["ncallbacks"]}, len(dense) >= 2 and mixed)
    if ctx.evals % 331 == 1:
        ctx.sample({"dense": dense, "commons": commons, "expected_events": len(exp)})
    feat = "ndims=%d" % len(dense)
    for log in logs:          # every callback must have been given every combination exactly once
        seen = {}
        for coords, rowids in log:
            if type(coords) is not tuple or len(coords) != len(dense):
                ctx.violation("coords-shape:" + feat, "callback got coordinates %r" % (coords,), case)
                return
            if not isinstance(rowids, numpy.ndarray) or rowids.dtype != U32 or rowids.ndim != 1 or \
                    (len(rowids) > 1 and not numpy.all(rowids[1:] > rowids[:-1])):
                ctx.violation("rowids-not-increasing-uint32:" + feat, "callback for %r got row ids %r" % (coords, rowids), case)
                return
            for v, c in zip(coords, commons):
                if v == c:
                    ctx.violation("common-presented:" + feat, "the common category %r was presented in %r" % (c, coords), case)
                    return
            if coords in seen:
                ctx.violation("duplicate-event:" + feat, "combination %r presented twice" % (coords,), case)
                return
            seen[coords] = rowids.tolist()
            if any(v == -1 for v in coords):
                ctx.count("events:mixed" if any(v != -1 for v in coords) else "events:all_marginal")
            else:
                ctx.count("events:all_uncommon")
        if seen != exp:
            missing = [c for c in exp if c not in seen]
            extra = [c for c in seen if c not in exp]
            wrong = [c for c in seen if c in exp and seen[c] != exp[c]]
            kind = "missing-event" if missing else ("extra-event" if extra else "wrong-rowids")
            marg = (missing or extra or wrong)[0]
            sub = "marginal" if any(v == -1 for v in marg) else "uncommon"
            ctx.violation("%s:%s:%s" % (kind, sub, feat),
                          "callback log differs: missing %r extra %r wrong row ids %r (expected %r got %r)"
                          % (missing[:3], extra[:3], wrong[:3], exp.get(marg), seen.get(marg)), case)
            return
    # walking the same cube object again presents the same combinations (no state left behind)
    if case.get("via") == "interactions" and n % 2 == 1:
        again = {c: r.tolist() for c, r in cube.interactions()}
        ctx.count("walk:repeated")
        if again != seen:
            ctx.violation("second-walk-differs:" + feat, "a second walk of the same cube presents different combinations", case)
            return
    # the dimensions are live objects: after cells of one of them are re-assigned in place, walking
    # the SAME cube object again presents the combinations of the new data
    if case.get("edit_seed") is not None and n and len(dense) >= 1:
        r2 = numpy.random.default_rng(case["edit_seed"])
        d = int(r2.integers(0, len(dense)))
        a = dense[d].copy()
        vals = list(range(case["extents"][d]))
        rows = numpy.unique(r2.integers(0, n, size=int(r2.integers(1, 4))))
        groups = {}
        for row in rows.tolist():
            v = int(vals[int(r2.integers(0, len(vals)))])
            a[row] = v
            groups.setdefault((v,), []).append(row)
        dims[d].update({k: numpy.array(sorted(v), dtype=U32) for k, v in groups.items()})
        dense2 = list(dense)
        dense2[d] = a
        exp2, _ = expected_events(dense2, commons)
        got2 = {}
        for c, r in cube.interactions():
            if c in got2:
                ctx.violation("duplicate-event-after-edit:" + feat, "combination %r presented twice" % (c,), case)
                return
            got2[c] = r.tolist()
        ctx.count("walk:after_in_place_edit")
        ctx.evaluation({"d": dense2, "c": commons, "edited": True}, len(dense) >= 2)
        if got2 != exp2:
            diff = [c for c in set(got2) | set(exp2) if got2.get(c) != exp2.get(c)][:3]
            ctx.violation("walk-after-in-place-edit:" + feat,
                          "after update() of dimension %d the same cube presents stale combinations, e.g. %r: got %r expected %r"
                          % (d, diff, [got2.get(c) for c in diff], [exp2.get(c) for c in diff]), case)
            return
    for other in logs[1:]:
        if len(other) != len(log) or any(a[0] != b[0] or a[1].tolist() != b[1].tolist() for a, b in zip(log, other)):
            ctx.violation("callbacks-disagree:" + feat, "two callbacks passed together saw different sequences", case)
            return
