"""Reference models (oracles), written from the property statements and the
public documentation only.

dense group-by: for every output cell the row set is found by comparing the
dense coordinate arrays; the aggregate is computed over that row set with plain
NumPy reductions, and the missing flag from the rule of C04:
    a cell is missing when no row falls in it, or when the fact/weight values of
    its rows are missing - all of them if missing values are ignored, any of
    them otherwise (and, for a mean, when the valid weights sum to zero)."""
import itertools
import math

import numpy

NaN = float("nan")


def scaffold_positions(dense):
    """Per-dimension extra-axis index tuples, dimension order then axis order."""
    per_dim = []
    for d in dense:
        extra = d.shape[1:]
        per_dim.append(list(numpy.ndindex(*extra)) if extra else [()])
    return list(itertools.product(*per_dim))


def scaffold_shape(dense):
    return tuple(e for d in dense for e in d.shape[1:])


def columns_at(dense, pos):
    return [d[(slice(None),) + tuple(p)] for d, p in zip(dense, pos)]


def rows_by_cell(cols, shape, n):
    """dict: cell coordinate tuple -> array of row numbers (only occupied cells).
    Rows whose coordinate lies outside the shape are ignored (not generated)."""
    if not cols:
        return {(): numpy.arange(n)}
    flat = numpy.zeros(n, dtype=numpy.int64)
    for c, e in zip(cols, shape):
        flat = flat * e + c.astype(numpy.int64)
    order = numpy.argsort(flat, kind="stable")
    sf = flat[order]
    out = {}
    if n:
        bounds = numpy.nonzero(numpy.diff(sf))[0] + 1
        starts = numpy.concatenate([[0], bounds])
        ends = numpy.concatenate([bounds, [n]])
        for s, e in zip(starts, ends):
            cell = numpy.unravel_index(int(sf[s]), shape)
            out[tuple(int(x) for x in cell)] = numpy.sort(order[s:e])
    return out


# --------------------------------------------------------------------------- #
def cell_stat(agg, n, x, xv, w, wv, ignore):
    """(value, missing) of one cell for one fact column.
    x, xv: fact values / validity of the cell's rows (None for count);
    w, wv: weights / validity of the cell's rows (None when unweighted)."""
    if agg == "count":
        if w is None:
            return float(n), n == 0
        valid = wv
        nvalid = int(valid.sum())
        val = float(w[valid].sum()) if nvalid else 0.0
        missing = n == 0 or (nvalid == 0 if ignore else nvalid < n)
        return val, missing
    valid = xv if w is None else (xv & wv)
    nvalid = int(valid.sum())
    missing = n == 0 or (nvalid == 0 if ignore else nvalid < n)
    if agg == "valid_count":
        val = float(nvalid) if w is None else (float(w[valid].sum()) if nvalid else 0.0)
        return val, missing
    xs = x[valid].astype(float)
    if agg == "sum":
        if w is None:
            return (float(xs.sum()) if nvalid else 0.0), missing
        return (float((w[valid] * xs).sum()) if nvalid else 0.0), missing
    if agg == "mean":
        if w is None:
            den = float(nvalid)
            num = float(xs.sum()) if nvalid else 0.0
        else:
            den = float(w[valid].sum()) if nvalid else 0.0
            num = float((w[valid] * xs).sum()) if nvalid else 0.0
        if den == 0:
            return NaN, True
        return num / den, missing
    raise ValueError(agg)


def reference(agg, dense, shape, n, fact=None, weights=None, ignore=False, stat=None):
    """Return (values float64, missing bool), both of shape scaffold + shape (+K).

    fact: (values (n,) or (n,K), validity same shape) or None
    weights: (w (n,), validity (n,)) or None
    stat: optional per-cell function replacing cell_stat (C18)."""
    sshape = scaffold_shape(dense)
    tail = ()
    if fact is not None and fact[0].ndim == 2:
        tail = (fact[0].shape[1],)
    out_shape = sshape + tuple(shape) + tail
    values = numpy.full(out_shape, NaN)
    missing = numpy.ones(out_shape, dtype=bool)
    w = wv = None
    if weights is not None:
        w, wv = weights
    for pos in scaffold_positions(dense):
        spos = tuple(i for p in pos for i in p)
        cols = columns_at(dense, pos)
        cells = rows_by_cell(cols, shape, n)
        for cell, rows in cells.items():
            cw = None if w is None else w[rows]
            cwv = None if w is None else wv[rows]
            if fact is None:
                v, m = (stat or cell_stat)(agg, len(rows), None, None, cw, cwv, ignore)
                values[spos + cell] = v
                missing[spos + cell] = m
            elif not tail:
                v, m = (stat or cell_stat)(agg, len(rows), fact[0][rows], fact[1][rows], cw, cwv, ignore)
                values[spos + cell] = v
                missing[spos + cell] = m
            else:
                for k in range(tail[0]):
                    v, m = (stat or cell_stat)(agg, len(rows), fact[0][rows, k], fact[1][rows, k], cw, cwv, ignore)
                    values[spos + cell + (k,)] = v
                    missing[spos + cell + (k,)] = m
    return values, missing


def magnitude(fact, weights, n):
    """Sum of |w*x| over valid rows: the scale of rounding error."""
    if fact is None:
        if weights is None:
            return float(n)
        w, wv = weights
        return float(numpy.abs(w[wv]).sum()) if wv.any() else 0.0
    x, xv = fact
    xx = numpy.where(xv, numpy.nan_to_num(x.astype(float), nan=0.0, posinf=0.0, neginf=0.0), 0.0)
    if weights is not None:
        w, wv = weights
        ww = numpy.where(wv, numpy.nan_to_num(w, nan=0.0, posinf=0.0, neginf=0.0), 0.0)
        xx = (xx.T * ww).T
    return float(numpy.abs(xx).sum())


# --------------------------------------------------------------------------- #
def split_result(res, rma):
    """Normalise a library result to (values ndarray, missing bool ndarray or
    None, problem or None).  rma: the return_missing_as that was passed."""
    if isinstance(rma, tuple):
        if not (isinstance(res, tuple) and len(res) == 2):
            return None, None, "expected a (values, validity) pair, got %r" % (type(res).__name__,)
        vals, validity = numpy.asarray(res[0]), numpy.asarray(res[1])
        if validity.dtype != bool or validity.shape != vals.shape:
            return None, None, "validity array has dtype %s shape %r for values of shape %r" % (
                validity.dtype, validity.shape, vals.shape)
        return vals, ~validity, None
    vals = numpy.asarray(res)
    if isinstance(rma, float) and math.isnan(rma):
        if vals.dtype.kind not in "fc":
            return vals, numpy.zeros(vals.shape, dtype=bool), None
        return vals, numpy.isnan(vals), None
    return vals, None, None


def conform(arr, ref_shape):
    """Zero-dimensional cubes: compare the single cell whatever the wrapping."""
    if arr.shape == tuple(ref_shape):
        return arr
    if arr.size == int(numpy.prod(ref_shape)):
        squeezed_a = tuple(s for s in arr.shape if s != 1)
        squeezed_r = tuple(s for s in ref_shape if s != 1)
        if squeezed_a == squeezed_r:
            return arr.reshape(ref_shape)
    return None


def compare(res, rma, ref_values, ref_missing, tol, what=""):
    """Return None if the library result matches the reference, else (key, msg)."""
    vals, miss, problem = split_result(res, rma)
    if problem:
        return "format", problem
    v = conform(vals, ref_values.shape)
    if v is None:
        return "shape", "result shape %r, expected %r" % (vals.shape, ref_values.shape)
    if miss is not None:
        m = conform(miss, ref_values.shape)
        if not numpy.array_equal(m, ref_missing):
            bad = numpy.argwhere(m != ref_missing)
            pos = tuple(int(i) for i in bad[0])
            kind = "spurious-missing" if m[pos] else "missing-not-reported"
            return ("missing:" + kind,
                    "%d cells differ in missingness; first at %r: library %s, reference %s (value there %r)"
                    % (len(bad), pos, "missing" if m[pos] else "present", "missing" if ref_missing[pos] else "present",
                       v[pos]))
        ok = ~ref_missing
        if ok.any():
            a = v[ok].astype(float)
            b = ref_values[ok]
            if not numpy.all(numpy.abs(a - b) <= tol):
                diff = numpy.abs(a - b)
                i = int(numpy.nanargmax(numpy.where(numpy.isnan(diff), numpy.inf, diff)))
                pos = tuple(int(x) for x in numpy.argwhere(ok)[i])
                return "value", "value at %r: library %r, reference %r (tolerance %g)" % (pos, v[pos], ref_values[pos], tol)
        if isinstance(rma, tuple) and ref_missing.any():
            with numpy.errstate(all="ignore"):
                sentinel = numpy.array(rma[0]).astype(v.dtype)
            got = v[ref_missing]
            same = (got == sentinel) | ((got != got) & (sentinel != sentinel))
            if not numpy.all(same):
                return "sentinel", "missing cells hold %r, expected the sentinel %r (as %s)" % (
                    got[~same][:3].tolist(), rma[0], v.dtype)
        return None
    # plain replacement value: one array, missing cells hold the replacement
    with numpy.errstate(all="ignore"):
        repl = numpy.array(rma).astype(v.dtype)
    expect = numpy.where(ref_missing, repl.astype(float), ref_values)
    a = v.astype(float)
    if not numpy.all(numpy.abs(a - expect) <= tol):
        diff = numpy.abs(a - expect)
        pos = tuple(int(x) for x in numpy.argwhere(~(diff <= tol))[0])
        kind = "replacement" if ref_missing[pos] else "value"
        return kind, "plain-replacement result at %r: library %r, expected %r (%s cell)" % (
            pos, v[pos], expect[pos], "missing" if ref_missing[pos] else "present")
    return None
