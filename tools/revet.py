#!/venv/bin/python
"""Run the current checks against every kept seeded change (seeded/<id>/patch.diff) and record
the outcome in its meta.json ("final": {check: {exit, violation_keys}}, "caught_by").

    tools/revet.py [--jobs 3] [--tier quick] [ids...]

Each change is applied in a scratch worktree of /repo under /tmp (removed afterwards); the checks
read it through CATII_SRC.  Also runs the demonstration again on the patched tree."""
import concurrent.futures
import json
import os
import shutil
import subprocess
import sys
import tempfile

ROOT = os.path.dirname(os.path.dirname(os.path.abspath(__file__)))
SEEDED = os.path.join(ROOT, "seeded")
PY = "/venv/bin/python"
# neighbouring checks that are also worth running for a property
ALSO = {"C05": ["C06"], "C19": ["C10"], "C14": ["C08"], "C10": ["C11"], "C11": ["C10"], "C04": ["C03"], "C03": ["C04"]}


def sh(cmd, **kw):
    return subprocess.run(cmd, capture_output=True, text=True, **kw)


SEED = None
WRITE = True


def one(cid, tier, head):
    d = os.path.join(SEEDED, cid)
    meta = json.load(open(os.path.join(d, "meta.json")))
    prop = meta["property"]
    wt = tempfile.mkdtemp(prefix="revet-", dir="/tmp")
    os.rmdir(wt)
    try:
        r = sh(["git", "-C", "/repo", "worktree", "add", "-q", "--detach", wt, "HEAD"])
        if r.returncode:
            return cid, {"error": r.stderr}
        r = sh(["git", "-C", wt, "apply", os.path.join(d, "patch.diff")])
        if r.returncode:
            return cid, {"error": "patch does not apply: " + r.stderr[-300:]}
        changed = sh(["git", "-C", wt, "diff", "--name-only"]).stdout.split()
        env = dict(os.environ, PYTHONPATH=os.path.join(wt, "src"), PYTHONHASHSEED="0")
        so = [f for f in os.listdir("/repo/src/catii") if f.endswith(".so")][0]
        shutil.copy2(os.path.join("/repo/src/catii", so), os.path.join(wt, "src/catii", so))
        if any(f.endswith(".pyx") for f in changed):
            r = sh([PY, "setup.py", "build_ext", "--inplace"], cwd=wt, env=dict(env, CYTHONIZE_SETUP_PY="1"))
            if r.returncode:
                return cid, {"error": "build failed"}
        demo = sh([PY, os.path.join(d, "demo.py")], env=env, cwd=d, timeout=1800)
        final = {}
        for c in [prop] + ALSO.get(prop, []):
            r = sh([os.path.join(ROOT, "check"), c, "--tier", tier, "--no-evidence", "--jobs", "6"],
                   env=dict(os.environ, CATII_SRC=os.path.join(wt, "src/catii"), **({"VERIF_SEED": str(SEED)} if SEED is not None else {})),
                   timeout=7200)
            keys = sorted({l.strip()[4:] for l in r.stdout.splitlines() if l.strip().startswith("key=")})
            final[c] = {"exit": r.returncode, "violation_keys": keys[:5]}
        return cid, {"demo_exit_with_patch": demo.returncode, "final": final, "verif_commit": head, "tier": tier}
    finally:
        sh(["git", "-C", "/repo", "worktree", "remove", "--force", wt])
        shutil.rmtree(wt, ignore_errors=True)


def main(argv):
    jobs, tier, ids = 3, "quick", []
    i = 0
    while i < len(argv):
        if argv[i] == "--jobs":
            jobs = int(argv[i + 1]); i += 2; continue
        if argv[i] == "--tier":
            tier = argv[i + 1]; i += 2; continue
        if argv[i] == "--seed":
            global SEED, WRITE
            SEED = int(argv[i + 1]); WRITE = False; i += 2; continue
        ids.append(argv[i]); i += 1
    ids = ids or sorted(os.listdir(SEEDED))
    head = sh(["git", "-C", ROOT, "log", "-1", "--format=%h"]).stdout.strip()
    missed = []
    with concurrent.futures.ThreadPoolExecutor(max_workers=jobs) as ex:
        for cid, res in ex.map(lambda c: one(c, tier, head), ids):
            p = os.path.join(SEEDED, cid, "meta.json")
            meta = json.load(open(p))
            if "error" in res:
                print(cid, "ERROR", res["error"])
                continue
            meta["final_run"] = res
            meta["caught_by"] = [c for c, v in res["final"].items() if v["exit"] == 1]
            if WRITE:
                json.dump(meta, open(p, "w"), indent=1)
            own = res["final"][meta["property"]]["exit"]
            print(cid, "own-check-exit=%s" % own, "caught_by=%s" % meta["caught_by"], "demo=%s" % res["demo_exit_with_patch"])
            if own != 1:
                missed.append(cid)
    shutil.rmtree(os.path.join(ROOT, "replay"), ignore_errors=True)
    print("missed by the property's own check:", missed)
    return 1 if missed else 0


if __name__ == "__main__":
    sys.exit(main(sys.argv[1:]))
