"""C07 - every operation preserves index well-formedness.

Oracle: the library's comprehensive validator plus the range / arity /
non-emptiness conditions it does not check, and the consequences named by the
property (abscissae, sparsity, inferred cube shape), at quiescent points."""
from .. import histories

META = {
    "level": "exploration",
    "rule": ("histories as in C06 (incl. from_array construction and INDX save/load); after every step the receiver "
             "and every result are validated. Non-trivial: as C06 and >=1 step changed the entry set; distinct by hash "
             "of the operation log"),
    "require": {t: ["op:shift_common", "op:shift_common_v", "op:append", "op:update", "op:filtered", "op:sliced",
                    "op:slices1d", "op:reindexed", "op:reindexed_default", "op:collapsed", "op:copy",
                    "op:column_stack", "op:indx_save_load", "op:from_array", "wf:checked", "wf:cube_shape_checked"]
                for t in ("quick", "thorough")},
    "assumptions": ["transient states inside an operation are never inspected (only after the top-level call returns)",
                    "entry-wise set updates run on scratch copies and are not validated (they are not dense operations)"],
}
META["rule"] += "; round 7: 'medium' histories as in C06; after every entry-wise set update each entry must be a non-empty strictly increasing uint32 list"
for _t in META["require"]:
    META["require"][_t] = list(META["require"][_t]) + ['class:entries_of_more_than_1000_row_ids', 'set_update:entries_checked_for_form']
ASPECT = "C07"


def shards(tier):
    if tier == "quick":
        return [{"label": "hist%d" % i, "n": 2200} for i in range(14)] + [{"label": "giant", "n": 60, "giant": True},
                                                                               {"label": "medium", "n": 40, "medium": True}]
    return [{"label": "hist%d" % i, "n": 60000} for i in range(16)] + [{"label": "giant", "n": 1500, "giant": True}] + \
           [{"label": "medium%d" % i, "n": 500, "medium": True} for i in range(3)]


def run_shard(ctx):
    if ctx.shard.get("giant"):
        for case in histories.giant_append_cases(ctx.rng, ctx.shard["n"]):
            histories.giant_append(ctx, ASPECT, case)
        return
    if ctx.shard.get("medium"):
        from .c06 import MEDIUM_PROFILE

        histories.run_histories(ctx, ASPECT, ctx.shard["n"], min_steps=6, max_steps=14, profile=MEDIUM_PROFILE)
        ctx.count("class:entries_of_more_than_1000_row_ids", ctx.shard["n"])
        return
    histories.run_histories(ctx, ASPECT, ctx.shard["n"])


def replay(ctx, case):
    if case.get("kind") == "giant_append":
        histories.giant_append(ctx, ASPECT, case)
        return
    histories.replay(ctx, ASPECT, case)
